SPECIFICATION Spec
CONSTANTS
  s1 = s1
  s2 = s2
  o1 = o1
  o2 = o2
  w1 = w1
  w2 = w2
  None = None
  Starts = {s1}
  IdOf <- IdOfDef
  Objs = {o1}
  MaxAttempts = 7
  MaxClock = 3
  FailBudget = 0
  RespBudget = 1
  JunkBudget = 0
  CloseConn = FALSE
  HasFallback = FALSE
  AllowClose = TRUE
  AllowDo = TRUE
  AllowIndicate = TRUE
  WObjs = {w1}
  DupMode = FALSE
  DupStart = s2
  PoolOnError = FALSE
  IdleCollects = 0
  RtoChanges = 0
  DeadlineTicks = FALSE
  OneAtATime = FALSE
  SafePool = FALSE
  Strict = FALSE
VIEW View
INVARIANT TypeOK
INVARIANT AtMostOnce
INVARIANT WritesBounded
INVARIANT RoutedByID
INVARIANT ConnOwnership
INVARIANT GoroutinesGone
INVARIANT DoNotStuck
INVARIANT NoPanic
INVARIANT IndicationsAreNotTransactions
PROPERTY ClosedStartsRefused
PROPERTY RtoSnapshot
ACTION_CONSTRAINT PrintEdge
CHECK_DEADLOCK FALSE
