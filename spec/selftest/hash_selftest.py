#!/usr/bin/env python3
"""Self test of the TLA+ hash modules (SHA1, SHA256, MD5, HMAC) against hashlib/hmac.

  hash_selftest.py            generate ~150 vectors, let TLC check them, print PASS/FAIL + wall time
  hash_selftest.py --bench    additionally measure the evaluation time per operation
  hash_selftest.py --keep     keep the temporary directory (vectors, TLC output) for inspection

The spec files are copied to a temporary directory and TLC runs there, so nothing is
written below /verif/spec.  Exit status is non-zero when a vector fails or TLC does
not complete.
"""
import argparse
import hashlib
import hmac
import json
import os
import random
import re
import shutil
import subprocess
import sys
import tempfile
import time

HERE = os.path.dirname(os.path.abspath(__file__))
SPEC = os.path.dirname(HERE)
TOOLS = os.environ.get("VERIF_TLA_TOOLS", "/opt/veriftools/tla")
CP = f"{TOOLS}/tla2tools.jar:{TOOLS}/CommunityModules-deps.jar"
MODULES = ["Bytes.tla", "CRC32.tla", "SHA1.tla", "SHA256.tla", "MD5.tla", "HMAC.tla"]
HASHES = {"sha1": hashlib.sha1, "sha256": hashlib.sha256, "md5": hashlib.md5}


def hvec(kind, msg):
    return {"k": kind, "m": list(msg), "d": list(HASHES[kind](msg).digest())}


def mvec(kind, key, msg):
    return {"k": "hmac-" + kind, "key": list(key), "m": list(msg),
            "d": list(hmac.new(key, msg, HASHES[kind]).digest())}


def standard_vectors():
    """Published vectors; the expected digests are spelled out and hashlib must agree."""
    two_blocks = b"abcdbcdecdefdefgefghfghighijhijkijkljklmklmnlmnomnopnopq"
    known_hash = [
        # FIPS 180 examples
        ("sha1", b"", "da39a3ee5e6b4b0d3255bfef95601890afd80709"),
        ("sha1", b"abc", "a9993e364706816aba3e25717850c26c9cd0d89d"),
        ("sha1", two_blocks, "84983e441c3bd26ebaae4aa1f95129e5e54670f1"),
        ("sha256", b"", "e3b0c44298fc1c149afbf4c8996fb92427ae41e4649b934ca495991b7852b855"),
        ("sha256", b"abc", "ba7816bf8f01cfea414140de5dae2223b00361a396177a9cb410ff61f20015ad"),
        ("sha256", two_blocks, "248d6a61d20638b8e5c026930c3e6039a33ce45964ff2167f6ecedd419db06c1"),
        # RFC 1321 appendix A.5
        ("md5", b"", "d41d8cd98f00b204e9800998ecf8427e"),
        ("md5", b"a", "0cc175b9c0f1b6a831c399e269772661"),
        ("md5", b"abc", "900150983cd24fb0d6963f7d28e17f72"),
        ("md5", b"message digest", "f96b697d7cb7938d525a2f31aaf161d0"),
        ("md5", b"abcdefghijklmnopqrstuvwxyz", "c3fcd3d76192e4007dfb496cca67e13b"),
        ("md5", b"ABCDEFGHIJKLMNOPQRSTUVWXYZabcdefghijklmnopqrstuvwxyz0123456789",
         "d174ab98d277d9f5a5611c2c9f419d9f"),
        ("md5", b"1234567890" * 8, "57edf4a22be3c955ac49da2e2107b67a"),
    ]
    known_hmac = [
        # RFC 2202 s3 (HMAC-SHA-1), test cases 1-7
        ("sha1", b"\x0b" * 20, b"Hi There", "b617318655057264e28bc0b6fb378c8ef146be00"),
        ("sha1", b"Jefe", b"what do ya want for nothing?", "effcdf6ae5eb2fa2d27416d5f184df9c259a7c79"),
        ("sha1", b"\xaa" * 20, b"\xdd" * 50, "125d7342b9ac11cd91a39af48aa17b4f63f175d3"),
        ("sha1", bytes(range(1, 26)), b"\xcd" * 50, "4c9007f4026250c6bc8414f9bf50c86c2d7235da"),
        ("sha1", b"\x0c" * 20, b"Test With Truncation", "4c1a03424b55e07fe7f27be1d58bb9324a9a5a04"),
        ("sha1", b"\xaa" * 80, b"Test Using Larger Than Block-Size Key - Hash Key First",
         "aa4ae5e15272d00e95705637ce8a3b55ed402112"),
        ("sha1", b"\xaa" * 80,
         b"Test Using Larger Than Block-Size Key and Larger Than One Block-Size Data",
         "e8e99d0f45237d786d6bbaa7965c7808bbff1a91"),
        # RFC 4231 s4 (HMAC-SHA-256), test cases 1-4, 6
        ("sha256", b"\x0b" * 20, b"Hi There",
         "b0344c61d8db38535ca8afceaf0bf12b881dc200c9833da726e9376c2e32cff7"),
        ("sha256", b"Jefe", b"what do ya want for nothing?",
         "5bdcc146bf60754e6a042426089575c75a003f089d2739839dec58b964ec3843"),
        ("sha256", b"\xaa" * 20, b"\xdd" * 50,
         "773ea91e36800e46854db8ebd09181a72959098b3ef8c122d9635514ced565fe"),
        ("sha256", bytes(range(1, 26)), b"\xcd" * 50,
         "82558a389a443c0ea4cc819899f2083a85f0faa3e578f8077a2e3ff46729665b"),
        ("sha256", b"\xaa" * 131, b"Test Using Larger Than Block-Size Key - Hash Key First",
         "60e431591ee0b67f0d8a26aacbf5b77f8e0bc6213728c5140546040f0ee37f54"),
    ]
    out = []
    for kind, msg, hexd in known_hash:
        v = hvec(kind, msg)
        assert bytes(v["d"]).hex() == hexd, (kind, msg)
        out.append(v)
    for kind, key, msg, hexd in known_hmac:
        v = mvec(kind, key, msg)
        assert bytes(v["d"]).hex() == hexd, (kind, key, msg)
        out.append(v)
    return out


def make_vectors(seed):
    rnd = random.Random(seed)
    rb = lambda n: bytes(rnd.randrange(256) for _ in range(n))
    out = standard_vectors()
    edge_msg = [0, 1, 55, 56, 63, 64, 65, 119, 120, 127, 128, 129, 300]
    for kind in HASHES:
        for n in edge_msg + [rnd.randrange(301) for _ in range(9)]:
            out.append(hvec(kind, rb(n)))
    edge_key = [0, 1, 16, 20, 63, 64, 65, 128, 200]
    for kind in ("sha1", "sha256"):
        pairs = [(k, rnd.choice(edge_msg)) for k in edge_key]
        pairs += [(rnd.choice(edge_key), m) for m in edge_msg]
        pairs += [(rnd.randrange(201), rnd.randrange(301)) for _ in range(8)]
        for k, m in pairs:
            out.append(mvec(kind, rb(k), rb(m)))
    # long messages
    out.append(hvec("sha1", rb(4096)))
    out.append(hvec("sha256", rb(1000)))
    out.append(hvec("sha256", rb(4096)))
    out.append(hvec("md5", rb(2047)))
    out.append(hvec("md5", rb(4096)))
    out.append(mvec("sha1", rb(20), rb(1500)))
    out.append(mvec("sha256", rb(150), rb(1024)))
    # all-ones bytes exercise the carries
    out.append(hvec("sha1", b"\xff" * 64))
    out.append(hvec("sha256", b"\xff" * 64))
    out.append(hvec("md5", b"\xff" * 64))
    return out


def prepare(tmp):
    for m in MODULES:
        shutil.copy(os.path.join(SPEC, m), tmp)
    for f in ("HashSelfTest.tla", "HashSelfTest.cfg"):
        shutil.copy(os.path.join(HERE, f), tmp)


def run_tlc(tmp, vectors, tag, timeout):
    """Returns (ok, seconds, output)."""
    path = os.path.join(tmp, f"{tag}.ndjson")
    with open(path, "w") as f:
        for v in vectors:
            f.write(json.dumps(v, separators=(",", ":")) + "\n")
    md = os.path.join(tmp, "md-" + tag)
    cmd = ["timeout", str(timeout),
           "java", "-XX:+UseSerialGC", "-Xmx3g", "-Xss512m", "-cp", CP, "tlc2.TLC",
           "-workers", "1", "-metadir", md, "-config", "HashSelfTest.cfg", "HashSelfTest.tla"]
    env = dict(os.environ, VERIF_TRACE=path)
    t0 = time.monotonic()
    p = subprocess.run(cmd, cwd=tmp, env=env, stdout=subprocess.PIPE, stderr=subprocess.STDOUT, text=True)
    dt = time.monotonic() - t0
    with open(os.path.join(tmp, f"{tag}.out"), "w") as f:
        f.write(p.stdout)
    counted = re.search(r'<<"vectors", (\d+)>>', p.stdout)
    ok = (p.returncode == 0
          and counted is not None and int(counted.group(1)) == len(vectors)
          and '<<"failed", {}>>' in p.stdout
          and "Model checking completed. No error has been found." in p.stdout)
    return ok, dt, p.stdout


def bench(tmp, timeout):
    """Time per operation = (run with N operations - run with one tiny vector) / N.

    Every run starts a fresh JVM whose start-up time varies by a few 100 ms, so the
    base line is the minimum of three runs and N is large enough to dwarf the noise.
    The figure is the mean over one run (it includes the interpreter warming up).
    """
    rnd = random.Random(7)
    rb = lambda n: bytes(rnd.randrange(256) for _ in range(n))
    runs = [run_tlc(tmp, [hvec("sha1", b"")], "bench-base", timeout) for _ in range(3)]
    good, base = all(r[0] for r in runs), min(r[1] for r in runs)
    print(f"bench: TLC start-up + one empty SHA-1: {base:.2f}s")
    cases = [
        ("HMAC-SHA1, 20-byte key, 100-byte message", lambda: mvec("sha1", rb(20), rb(100)), 1000),
        ("HMAC-SHA256, 20-byte key, 100-byte message", lambda: mvec("sha256", rb(20), rb(100)), 1000),
        ("SHA-1 of 4096 bytes", lambda: hvec("sha1", rb(4096)), 40),
        ("SHA-256 of 4096 bytes", lambda: hvec("sha256", rb(4096)), 40),
        ("MD5 of 4096 bytes", lambda: hvec("md5", rb(4096)), 40),
    ]
    for i, (name, gen, n) in enumerate(cases):
        ok, t, _ = run_tlc(tmp, [gen() for _ in range(n)], f"bench-{i}", timeout)
        good = good and ok
        print(f"bench: {name}: {max(t - base, 0) * 1000 / n:.1f} ms each "
              f"({n} in {t:.2f}s){'' if ok else '  (RUN FAILED)'}")
    return good


def main():
    ap = argparse.ArgumentParser()
    ap.add_argument("--seed", type=int, default=20261004)
    ap.add_argument("--timeout", type=int, default=600, help="seconds per TLC run")
    ap.add_argument("--bench", action="store_true")
    ap.add_argument("--keep", action="store_true")
    args = ap.parse_args()

    tmp = tempfile.mkdtemp(prefix="hash-selftest-")
    try:
        prepare(tmp)
        vectors = make_vectors(args.seed)
        ok, dt, out = run_tlc(tmp, vectors, "vectors", args.timeout)
        if not ok:
            keep = [l for l in out.splitlines()
                    if not re.match(r"(Parsing file|Semantic processing|Linting of) ", l)]
            print("\n".join(keep[-60:]))
        print(f"{'PASS' if ok else 'FAIL'}: {len(vectors)} vectors, wall time {dt:.1f}s")
        if ok and args.bench:
            ok = bench(tmp, args.timeout)
        return 0 if ok else 1
    finally:
        if args.keep:
            print("kept", tmp)
        else:
            shutil.rmtree(tmp, ignore_errors=True)


if __name__ == "__main__":
    sys.exit(main())
