------------------------------ MODULE StunType ------------------------------
(***************************************************************************)
(* RFC 5389 s6, figure 3: the 14-bit STUN message type field.              *)
(*                                                                         *)
(*        0                 1                                              *)
(*        2  3  4 5 6 7 8 9 0 1 2 3 4 5                                    *)
(*       +--+--+-+-+-+-+-+-+-+-+-+-+-+-+                                   *)
(*       |M |M |M|M|M|C|M|M|M|C|M|M|M|M|                                   *)
(*       |11|10|9|8|7|1|6|5|4|0|3|2|1|0|                                   *)
(*       +--+--+-+-+-+-+-+-+-+-+-+-+-+-+                                   *)
(*                                                                         *)
(* Written as a position table read off the figure (bit 15 of the 16-bit   *)
(* field is the rightmost column, i.e. the least significant bit), not as  *)
(* shifts and masks.                                                       *)
(***************************************************************************)
EXTENDS Integers, Sequences

\* Layout[k] for k = 13 down to 0 (bit k of the 16-bit value, LSB = 0):
\* which bit of the method (<<"M", i>>) or class (<<"C", i>>) lives there.
Layout ==
  [ k \in 0..13 |->
      CASE k = 0  -> << "M", 0 >>
        [] k = 1  -> << "M", 1 >>
        [] k = 2  -> << "M", 2 >>
        [] k = 3  -> << "M", 3 >>
        [] k = 4  -> << "C", 0 >>
        [] k = 5  -> << "M", 4 >>
        [] k = 6  -> << "M", 5 >>
        [] k = 7  -> << "M", 6 >>
        [] k = 8  -> << "C", 1 >>
        [] k = 9  -> << "M", 7 >>
        [] k = 10 -> << "M", 8 >>
        [] k = 11 -> << "M", 9 >>
        [] k = 12 -> << "M", 10 >>
        [] k = 13 -> << "M", 11 >> ]

Bit(v, i) == (v \div (2 ^ i)) % 2

Methods == 0..4095
Classes == 0..3

RECURSIVE SumBits(_, _)
SumBits(f, k) == IF k < 0 THEN 0 ELSE f[k] * (2 ^ k) + SumBits(f, k - 1)

\* 16-bit wire value of (method, class): the two leading bits are zero.
TypeValue(m, c) ==
  SumBits([k \in 0..13 |-> IF Layout[k][1] = "M" THEN Bit(m, Layout[k][2])
                                               ELSE Bit(c, Layout[k][2])], 13)

\* positions holding method bit i / class bit i
PosOfM(i) == CHOOSE k \in 0..13 : Layout[k] = << "M", i >>
PosOfC(i) == CHOOSE k \in 0..13 : Layout[k] = << "C", i >>

\* method and class carried by the low 14 bits of any 16-bit value
ReadMethod(v) == SumBits([i \in 0..11 |-> Bit(v, PosOfM(i))], 11)
ReadClass(v)  == SumBits([i \in 0..1  |-> Bit(v, PosOfC(i))], 1)
ReadType(v)   == << ReadMethod(v), ReadClass(v) >>

\* RFC 5389 s15 / s18.2: attribute types 0x0000-0x7FFF are comprehension-required, 0x8000-0xFFFF optional
ComprehensionRequired(t) == t <= 32767
ComprehensionOptional(t) == t >= 32768
\* s6: the four message classes
ClassName(c) == CASE c = 0 -> "request" [] c = 1 -> "indication" [] c = 2 -> "success response" [] c = 3 -> "error response"

(* Properties of the layout itself, checked by TLC over the complete domain
   (StunTypeCheck.cfg): *)
RoundTripMC == \A m \in Methods, c \in Classes : ReadType(TypeValue(m, c)) = << m, c >>
RoundTripV  == \A v \in 0..65535 : TypeValue(ReadMethod(v), ReadClass(v)) = v % 16384
TopBitsZero == \A m \in Methods, c \in Classes : TypeValue(m, c) < 16384
Injective   == \A m \in Methods, c \in Classes : ReadType(TypeValue(m, c)) = << m, c >>

=============================================================================
