"""C13 - Agent behaves as its transaction-table specification."""
import json
import vlib
from collections import deque


def edges_from(out):
    es = []
    for ln in out.splitlines():
        if ln.startswith('"EDGE '):
            es.append(json.loads(json.loads(ln)[5:]))
    return es


def key(s):
    return json.dumps(s, sort_keys=True)


def transition_cover(edges, init_key=None):
    """One call sequence per edge: BFS-tree path to the edge's source, then the edge's call."""
    succ = {}
    for e in edges:
        succ.setdefault(key(e["f"]), []).append(e)
    init = init_key or key(edges[0]["f"])
    path = {init: []}
    q = deque([init])
    while q:
        s = q.popleft()
        for e in succ.get(s, []):
            t = key(e["t"])
            if t not in path:
                path[t] = path[s] + [e["a"]]
                q.append(t)
    seqs = []
    for e in edges:
        f = key(e["f"])
        if f in path:
            seqs.append(path[f] + [e["a"]])
    return seqs, len(path)


def run(ctx):
    cfg = "AgentMC_quick.cfg" if ctx.quick() else "AgentMC_thorough.cfg"
    nids = 3 if ctx.quick() else 4
    r = ctx.tlc_model("AgentMC", cfg, workers=1, heap_gb=4, name="Agent exhaustive, %d ids" % nids)
    # unbounded histories: the exactly-one-terminal-event accounting as an inductive invariant (Apalache)
    obligations = []
    for name, args in (("IndInit => IndInv", ["--cinit=CInit", "--init=Init", "--inv=IndInv", "--length=0"]),
                       ("IndInv /\\ Next => IndInv'", ["--cinit=CInit", "--init=IndInit", "--inv=IndInv", "--length=1"])):
        ok, out = ctx.apalache("AgentInd", args)
        if not ok:
            raise vlib.Inconclusive("Apalache did not discharge %s:\n%s" % (name, out[-1500:]))
        obligations.append(name)
    vlib.log("APALACHE AgentInd: %d inductive obligations discharged" % len(obligations))
    ctx.extra["apalache_inductive_obligations"] = obligations
    # ... and as a TLAPS proof for any set of ids
    nobl, out = ctx.tlapm("AgentProof")
    if nobl == 0:
        raise vlib.Inconclusive("TLAPS did not prove AgentProof:\n" + out[-1500:])
    vlib.log("TLAPS AgentProof: all %d obligations proved" % nobl)
    ctx.extra["tlaps_obligations_proved"] = nobl
    edges = edges_from(r["out"])
    if not edges:
        raise vlib.Inconclusive("no edges exported by TLC")
    seqs, nstates = transition_cover(edges)
    vec = ctx.path("c13_vectors.ndjson")
    rin = ctx.replay_input()
    if rin is not None:
        seqs = [rin["calls"]]
        nids = rin["n"]
    with open(vec, "w") as fh:
        for s in seqs:
            # tl = -1: the driver cycles through its three monotone timelines
            fh.write(json.dumps({"n": nids, "calls": s, "tl": rin["tl"] if rin is not None else -1}) + "\n")
    vlib.log("GEN transition cover: %d edges over %d states -> %d call sequences" % (len(edges), nstates, len(seqs)))
    h = ctx.harness("stun")
    trace = ctx.path("c13.ndjson")
    nrand = 0 if rin is not None else (20 if ctx.quick() else 200)
    ctx.drive(h, "TestVerifC13", env={"VERIF_TRACE_OUT": trace, "VERIF_VECTORS": vec,
                                      "VERIF_RANDOM_SEQS": nrand, "VERIF_RANDOM_CALLS": 1000})
    bytr = {}
    with open(trace) as fh:
        for ln in fh:
            e = json.loads(ln)
            bytr.setdefault(e["tr"], []).append(e)

    def input_of(rj):
        tl = bytr[rj["trace_line"]["tr"]]
        calls = [{k: c[k] for k in ("op", "id", "d", "t", "h")} for c in tl if c["k"] == "call"]
        return {"n": tl[0]["n"], "calls": calls, "tl": tl[0].get("tl", 0)}
    ctx.input_of = input_of
    files = ctx.shard(trace, vlib.NCPU, group_key="tr")
    ctx.validate("AgentTrace", files)
    ctx.add_samples(trace, 4)
    ntraces = len(seqs) + nrand
    ctx.extra.update({"edges_exported": len(edges), "edges_replayed": len(seqs), "random_sequences": nrand,
                      "model_states_reached_by_replay": nstates})
    ctx.assumptions += ["AgentCore is the intended table semantics of the property text",
                        "handler events are recorded synchronously in the calling goroutine (single goroutine)"]
    return vlib.finish(ctx, traces_validated=ntraces, exhaustive=True,
                       rule="every transition of the exhaustive Agent state graph replayed on a fresh real Agent (BFS path + edge); plus seeded random 1000-call sequences over up to 50 ids")
