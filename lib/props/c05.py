"""C05 - FINGERPRINT as RFC 5389 s15.5, detects every single-bit corruption."""
from props import auth


def run(ctx):
    return auth.run(ctx, "C05")
