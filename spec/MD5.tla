-------------------------------- MODULE MD5 ---------------------------------
(***************************************************************************)
(* MD5, transcribed from RFC 1321.  Md5(b) maps a byte string to its       *)
(* 16-byte digest.  Words are the <<hi16, lo16>> pairs of Bytes and are    *)
(* read and written little-endian (RFC 1321 s2).  Helper names carry the   *)
(* prefix M5_.                                                             *)
(***************************************************************************)
EXTENDS Bytes

\* s3.3 initial MD buffer A, B, C, D (word values; "01 23 45 67" low-order byte first)
M5_Init == << <<26437, 8961>>,     \* A = 67452301
              <<61389, 43913>>,    \* B = efcdab89
              <<39098, 56574>>,    \* C = 98badcfe
              <<4146, 21622>> >>   \* D = 10325476

\* s3.4 table T[1..64], T[i] = integer part of 4294967296 * abs(sin(i))  (d76aa478 ... eb86d391)
M5_T ==
<< <<55146, 42104>>, <<59591, 46934>>, <<9248, 28891>>, <<49597, 52974>>,
   <<62844, 4015>>, <<18311, 50730>>, <<43056, 17939>>, <<64838, 38145>>,
   <<27008, 39128>>, <<35652, 63407>>, <<65535, 23473>>, <<35164, 55230>>,
   <<27536, 4386>>, <<64920, 29075>>, <<42617, 17294>>, <<18868, 2081>>,
   <<63006, 9570>>, <<49216, 45888>>, <<9822, 23121>>, <<59830, 51114>>,
   <<54831, 4189>>, <<580, 5203>>, <<55457, 59009>>, <<59347, 64456>>,
   <<8673, 52710>>, <<49975, 2006>>, <<62677, 3463>>, <<17754, 5357>>,
   <<43491, 59653>>, <<64751, 41976>>, <<26479, 729>>, <<36138, 19594>>,
   <<65530, 14658>>, <<34673, 63105>>, <<28061, 24866>>, <<64997, 14348>>,
   <<42174, 59972>>, <<19422, 53161>>, <<63163, 19296>>, <<48831, 48240>>,
   <<10395, 32454>>, <<60065, 10234>>, <<54511, 12421>>, <<1160, 7429>>,
   <<55764, 53305>>, <<59099, 39397>>, <<8098, 31992>>, <<50348, 22117>>,
   <<62505, 8772>>, <<17194, 65431>>, <<43924, 9127>>, <<64659, 41017>>,
   <<25947, 22979>>, <<36620, 52370>>, <<65519, 62589>>, <<34180, 24017>>,
   <<28584, 32335>>, <<65068, 59104>>, <<41729, 17172>>, <<19976, 4513>>,
   <<63315, 32386>>, <<48442, 62005>>, <<10967, 53947>>, <<60294, 54161>> >>

\* s3.4 the [abcd k s i] lists: index k of the message word X[k] used by operation i
M5_K ==
<< 0, 1, 2, 3, 4, 5, 6, 7, 8, 9, 10, 11, 12, 13, 14, 15,     \* round 1
   1, 6, 11, 0, 5, 10, 15, 4, 9, 14, 3, 8, 13, 2, 7, 12,     \* round 2
   5, 8, 11, 14, 1, 4, 7, 10, 13, 0, 3, 6, 9, 12, 15, 2,     \* round 3
   0, 7, 14, 5, 12, 3, 10, 1, 8, 15, 6, 13, 4, 11, 2, 9 >>   \* round 4

\* ... and the left-rotation amount s of operation i
M5_S ==
<< 7, 12, 17, 22, 7, 12, 17, 22, 7, 12, 17, 22, 7, 12, 17, 22,
   5, 9, 14, 20, 5, 9, 14, 20, 5, 9, 14, 20, 5, 9, 14, 20,
   4, 11, 16, 23, 4, 11, 16, 23, 4, 11, 16, 23, 4, 11, 16, 23,
   6, 10, 15, 21, 6, 10, 15, 21, 6, 10, 15, 21, 6, 10, 15, 21 >>

M5_Ops == [i \in 1..64 |-> i]

\* s3.4 auxiliary functions, each 16-bit half separately (not(x) is 65535 - x)
M5_F(x, y, z) == << (x[1] & y[1]) | ((65535 - x[1]) & z[1]),
                    (x[2] & y[2]) | ((65535 - x[2]) & z[2]) >>
M5_G(x, y, z) == << (x[1] & z[1]) | (y[1] & (65535 - z[1])),
                    (x[2] & z[2]) | (y[2] & (65535 - z[2])) >>
M5_H(x, y, z) == << (x[1] ^^ y[1]) ^^ z[1], (x[2] ^^ y[2]) ^^ z[2] >>
M5_I(x, y, z) == << y[1] ^^ (x[1] | (65535 - z[1])),
                    y[2] ^^ (x[2] | (65535 - z[2])) >>

\* the function of the round that operation i belongs to
M5_Fn(i, x, y, z) ==
  IF i <= 16 THEN M5_F(x, y, z)
  ELSE IF i <= 32 THEN M5_G(x, y, z)
  ELSE IF i <= 48 THEN M5_H(x, y, z)
  ELSE M5_I(x, y, z)

\* x <<< s for s in 1..31 (s2: circular left shift)
M5_Rotl(x, s) ==
  LET y == IF s >= 16 THEN << x[2], x[1] >> ELSE x     \* rotate by 16: swap the halves
      r == s % 16
  IN IF r = 0 THEN y
     ELSE LET q == 2 ^ r
              p == 65536 \div q
          IN << ((y[1] % p) * q) + (y[2] \div p), ((y[2] % p) * q) + (y[1] \div p) >>

\* sum of four words modulo 2^32
M5_Add4(a, b, c, d) ==
  LET lo == a[2] + b[2] + c[2] + d[2]
      hi == a[1] + b[1] + c[1] + d[1] + (lo \div 65536)
  IN << hi % 65536, lo % 65536 >>

---------------------------------------------------------------------------
(* s3.1 / s3.2 padding: 0x80, zero bytes up to 56 (mod 64), then the bit   *)
(* length as a 64-bit value, low-order word first, each word little-endian *)

M5_BitLen(n) == << << 0, n \div 536870912 >>,                       \* high word
                   << (n % 536870912) \div 8192, (n % 8192) * 8 >> >> \* low word

M5_Pad(b) ==
  LET n  == Len(b)
      k  == (119 - (n % 64)) % 64          \* n + 1 + k = 56 (mod 64)
      bl == M5_BitLen(n)
  IN b \o <<128>> \o Zeros(k) \o U32BytesLE(bl[2]) \o U32BytesLE(bl[1])

---------------------------------------------------------------------------
(* s3.4 operation i on the registers v = <<a, b, c, d>>:                   *)
(*   a = b + ((a + Fn(b, c, d) + X[k] + T[i]) <<< s)                       *)
(* The RFC then renames the registers ([ABCD] [DABC] [CDAB] [BCDA]); here  *)
(* the tuple is rotated instead, so that operation i + 1 again finds its   *)
(* "a" first.  After 64 operations the registers are back in place.        *)
M5_Step(v, x, i) ==
  << v[4],
     Add32(v[2], M5_Rotl(M5_Add4(v[1], M5_Fn(i, v[2], v[3], v[4]), x[M5_K[i] + 1], M5_T[i]),
                         M5_S[i])),
     v[2], v[3] >>

(* s3.4 for the 64-byte block of p at 0-based offset off: X[0..15], the    *)
(* four rounds, and the final additions AA, BB, CC, DD                     *)
M5_Block(h, p, off) ==
  LET x == << U32AtLE(p, off),      U32AtLE(p, off + 4),  U32AtLE(p, off + 8),  U32AtLE(p, off + 12),
              U32AtLE(p, off + 16), U32AtLE(p, off + 20), U32AtLE(p, off + 24), U32AtLE(p, off + 28),
              U32AtLE(p, off + 32), U32AtLE(p, off + 36), U32AtLE(p, off + 40), U32AtLE(p, off + 44),
              U32AtLE(p, off + 48), U32AtLE(p, off + 52), U32AtLE(p, off + 56), U32AtLE(p, off + 60) >>
      v == FoldLeft(LAMBDA vv, i : M5_Step(vv, x, i), h, M5_Ops)
  IN << Add32(h[1], v[1]), Add32(h[2], v[2]), Add32(h[3], v[3]), Add32(h[4], v[4]) >>

---------------------------------------------------------------------------
(* Incremental form: a state is the four-word buffer.  Md5Blocks absorbs a *)
(* byte string whose length is a multiple of 64.                           *)

Md5State0 == M5_Init

Md5Blocks(h, p) ==
  FoldLeft(LAMBDA hh, off : M5_Block(hh, p, off), h,
           [i \in 1..(Len(p) \div 64) |-> 64 * (i - 1)])

\* s3.5 output: A, B, C, D, each low-order byte first
Md5Digest(h) == U32BytesLE(h[1]) \o U32BytesLE(h[2]) \o U32BytesLE(h[3]) \o U32BytesLE(h[4])

Md5(b) == Md5Digest(Md5Blocks(M5_Init, M5_Pad(b)))

=============================================================================
