SPECIFICATION Spec
INVARIANT Vectors
CHECK_DEADLOCK FALSE
