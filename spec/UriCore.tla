------------------------------ MODULE UriCore ------------------------------
(***************************************************************************)
(* stun.ParseURI (uri.go) transcribed over an abstract alphabet, with the  *)
(* parts of net/url.Parse and net.SplitHostPort it relies on written out   *)
(* case by case.  An input is a scheme and a sequence of symbols (the text *)
(* after "scheme:"); "a" stands for any letter, "1" for any digit.         *)
(* The parse is a small state machine so that TLC can check termination:   *)
(*   start -> split -> (retry -> split)* -> done                           *)
(* `depth` counts how often the default port was appended.  The design     *)
(* property is depth <= 1 (the retry happens at most once) and that every  *)
(* input reaches `done`.                                                   *)
(***************************************************************************)
EXTENDS Integers, Sequences, SequencesExt, FiniteSets

Sigma == {"a", "1", ":", "[", "]", "?", "=", "&", "/", "#", ".", "-", "+", "@", "%"}

Known == {"stun", "stuns", "turn", "turns"}
DefaultPort(s) == IF s \in {"stun", "turn"} THEN <<"3", "4", "7", "8">> ELSE <<"5", "3", "4", "9">>
Digits == {"1", "3", "4", "5", "7", "8", "9"}

IndexOf(s, c) == IF \E i \in 1..Len(s) : s[i] = c THEN CHOOSE i \in 1..Len(s) : s[i] = c /\ \A j \in 1..(i - 1) : s[j] # c ELSE 0
LastIndexOf(s, c) == IF \E i \in 1..Len(s) : s[i] = c THEN CHOOSE i \in 1..Len(s) : s[i] = c /\ \A j \in (i + 1)..Len(s) : s[j] # c ELSE 0
Count(s, c) == Cardinality({ i \in 1..Len(s) : s[i] = c })
From(s, i) == SubSeq(s, i, Len(s))       \* s[i..]
Upto(s, i) == SubSeq(s, 1, i)            \* s[..i]

IsHex(c) == c \in {"a", "1"} \cup Digits
\* every "%" is followed by two hex digits
EscapesOK(s) == \A i \in 1..Len(s) : s[i] = "%" => (i + 2 <= Len(s) /\ IsHex(s[i + 1]) /\ IsHex(s[i + 2]))

\* net/url.Parse as far as ParseURI looks at it: [err, opaque, query]
UrlParse(rest0) ==
  LET h    == IndexOf(rest0, "#")
      frag == IF h = 0 THEN <<>> ELSE From(rest0, h + 1)
      r1   == IF h = 0 THEN rest0 ELSE Upto(rest0, h - 1)
      q    == IndexOf(r1, "?")
      force == Len(r1) > 0 /\ r1[Len(r1)] = "?" /\ Count(r1, "?") = 1
      rest == IF force THEN Upto(r1, Len(r1) - 1) ELSE IF q = 0 THEN r1 ELSE Upto(r1, q - 1)
      query == IF force \/ q = 0 THEN <<>> ELSE From(r1, q + 1)
  IN IF ~EscapesOK(frag) THEN [err |-> TRUE, opaque |-> <<>>, query |-> <<>>]
     ELSE IF Len(rest) > 0 /\ rest[1] = "/"
          THEN [err |-> FALSE, opaque |-> <<>>, query |-> query, hier |-> TRUE]      \* hierarchical form: no opaque part
          ELSE [err |-> FALSE, opaque |-> rest, query |-> query, hier |-> FALSE]

\* net.SplitHostPort: [err |-> "" | "missingport" | "other", host, port]
SplitHostPort(hp) ==
  LET i == LastIndexOf(hp, ":") IN
  IF i = 0 THEN [err |-> "missingport", host |-> <<>>, port |-> <<>>]
  ELSE IF hp[1] = "["
  THEN LET end == IndexOf(hp, "]") IN
       IF end = 0 THEN [err |-> "other", host |-> <<>>, port |-> <<>>]
       ELSE IF end = Len(hp) THEN [err |-> "missingport", host |-> <<>>, port |-> <<>>]
       ELSE IF end + 1 # i
            THEN IF hp[end + 1] = ":" THEN [err |-> "other", host |-> <<>>, port |-> <<>>]
                 ELSE [err |-> "missingport", host |-> <<>>, port |-> <<>>]
       ELSE IF IndexOf(From(hp, 2), "[") # 0 \/ IndexOf(From(hp, end + 1), "]") # 0
            THEN [err |-> "other", host |-> <<>>, port |-> <<>>]
       ELSE [err |-> "", host |-> SubSeq(hp, 2, end - 1), port |-> From(hp, i + 1)]
  ELSE LET host == Upto(hp, i - 1) IN
       IF IndexOf(host, ":") # 0 THEN [err |-> "other", host |-> <<>>, port |-> <<>>]
       ELSE IF IndexOf(hp, "[") # 0 \/ IndexOf(hp, "]") # 0 THEN [err |-> "other", host |-> <<>>, port |-> <<>>]
       ELSE [err |-> "", host |-> host, port |-> From(hp, i + 1)]

\* strconv.Atoi accepts an optional sign followed by at least one digit; the property wants 0..65535
IsDigit(c) == c = "1" \/ c \in Digits
PortSyntaxOK(p) ==
  LET d == IF Len(p) > 0 /\ p[1] \in {"+", "-"} THEN From(p, 2) ELSE p IN
  Len(d) > 0 /\ \A i \in 1..Len(d) : IsDigit(d[i])
PortInRange(p) == Len(p) > 0 /\ p[1] # "-" /\ Len(IF p[1] = "+" THEN From(p, 2) ELSE p) <= 5   \* "11111" and "65535" fit

\* query rules: no key can spell "transport" in the abstract alphabet, so a query is acceptable only when
\* every "&"-separated segment is empty
RECURSIVE SegsEmpty(_)
SegsEmpty(q) == q = <<>> \/ (q[1] = "&" /\ SegsEmpty(Tail(q)))
QueryOK(q) == SegsEmpty(q)

\* the parse of an input, computed as a function (used by the trace specification); Recursive = FALSE design
ParseOutcome(sch, inp) ==
  LET u == UrlParse(inp) IN
  IF u.err \/ sch \notin Known THEN [r |-> "err"]
  ELSE LET s1 == SplitHostPort(u.opaque)
           s  == IF s1.err = "missingport" THEN SplitHostPort(u.opaque \o <<":">> \o DefaultPort(sch)) ELSE s1
       IN IF s.err # "" \/ s.host = <<>> \/ ~PortSyntaxOK(s.port) \/ ~PortInRange(s.port) \/ ~QueryOK(u.query)
          THEN [r |-> "err"]
          ELSE [r |-> "ok", host |-> s.host, port |-> s.port, defaulted |-> s1.err = "missingport"]


=============================================================================
