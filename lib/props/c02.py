"""C02 - decoder accepts exactly RFC 5389 framing and reports its TLV list."""
from props import wire


def run(ctx):
    return wire.run(ctx, "C02")
