"""C01 - decoding arbitrary bytes is total and memory-safe."""
from props import wire


def run(ctx):
    return wire.run(ctx, "C01")
