//go:build verif

package stun_test

import (
	"fmt"
	"math/rand"
	"runtime"
	"sync"
	"sync/atomic"
	"testing"
	"time"

	"github.com/pion/stun/v3"
)

// ---- free-running client: real goroutines, the library's own ticker collector, a responder with loss,
// reordering, duplicates, unknown ids and garbage; Close raced with in-flight Start/Do. Built with -race. ----

func TestVerifClientFree(t *testing.T) {
	tw := newTrace(t)
	defer tw.close()
	runs := envInt("VERIF_FREE_RUNS", 10)
	for run := 0; run < runs && freeStuck < 3; run++ {
		freeRun(tw, run, 0)
	}
	// many goroutines call Close on the same client at the same moment
	for trial := 0; trial < envInt("VERIF_CLOSE_STORM", 0) && freeStuck < 3; trial++ {
		closeStorm(tw, trial)
	}
	// sequential churn: thousands of transactions one after the other through the same pools
	if n := envInt("VERIF_FREE_CHURN", 0); n > 0 {
		freeRun(tw, 1000, n)
	}
}

// freeStuck counts the free-running runs of this process that reported stuck goroutines: after a few of them the
// remaining runs are skipped (each one waits out its watchdogs)
var freeStuck int

func freeRun(tw *traceWriter, run int, churn int) {
	r := rand.New(rand.NewSource(seed()*7907 + int64(run)))
	var logging int32 = 1
	emit := func(m map[string]interface{}) {
		if atomic.LoadInt32(&logging) == 0 {
			return
		}
		m["tr"] = 100000 + run
		tw.emit(m)
	}
	c := newGctl(emit)
	c.free = true
	conn := &gConn{c: c, closeCh: make(chan struct{}), inQ: make(chan []byte, 4096), outQ: make(chan []byte, 4096)}
	// (write failures are injected only in the gated replay, where the order of events is exact)
	noRetx := run%4 == 3
	ga := &gAgent{c: c, a: stun.NewAgent(nil)}
	opts := []stun.ClientOption{stun.WithAgent(ga), stun.WithClock(gClock{c}), stun.WithRTO(time.Second),
		stun.WithTimeoutRate(200 * time.Microsecond)}
	fallback := run%2 == 0
	if fallback {
		opts = append(opts, stun.WithHandler(func(e stun.Event) {
			var raw []int
			if e.Message != nil {
				raw = ints(e.Message.Raw)
			}
			emit(map[string]interface{}{"k": "fallback", "p": c.procName(), "kind": evKind(e), "id": idIndex(e.TransactionID), "msg": raw})
		}))
	}
	if noRetx {
		opts = append(opts, stun.WithNoRetransmit)
	}
	emit(map[string]interface{}{"k": "cfg", "maxattempts": map[bool]int{true: 0, false: 7}[noRetx], "closeconn": true, "fallback": fallback, "rto": 1, "free": true})
	cli, err := stun.NewClient(conn, opts...)
	if err != nil {
		panic(err)
	}
	stop := make(chan struct{})
	// virtual time advances on its own
	cr := rand.New(rand.NewSource(seed()*17 + int64(run)))
	go func() {
		r := cr
		for {
			select {
			case <-stop:
				return
			case <-time.After(time.Duration(300+r.Intn(300)) * time.Microsecond):
				c.mu.Lock()
				c.clock++
				c.mu.Unlock()
			}
		}
	}()
	// responder
	var rmu sync.Mutex
	rr := rand.New(rand.NewSource(seed()*31 + int64(run)))
	go func() {
		for {
			select {
			case <-stop:
				return
			case w := <-conn.outQ:
				rmu.Lock()
				x := rr.Intn(100)
				extra := []int{4, 40, -1, 400, 996, -1, 1000}[rr.Intn(7)]
				delay := time.Duration(rr.Intn(400)) * time.Microsecond
				rmu.Unlock()
				id := idOfRaw(w)
				send := func(kind string, id int, data []byte) {
					emit(map[string]interface{}{"k": "deliver", "kind": kind, "id": id, "raw": ints(data)})
					select {
					case conn.inQ <- data:
					default:
					}
				}
				switch {
				case x < 25: // lost: the client retransmits
				case x < 80:
					d := respMessage(cliID(id), extra)
					go func() { time.Sleep(delay); send("msg", id, d) }()
				case x < 88: // duplicate
					d := respMessage(cliID(id), extra)
					send("msg", id, d)
					send("msg", id, d)
				case x < 94:
					send("msg", 60000+id, respMessage(cliID(60000+id), 8))
				default:
					g := []byte{1, 2, 3, 4, 5, 6, 7, 8, 9, 10, 11, 12, 13, 14, 15, 16, 17, 18, 19, 20, 21, 22}
					send("garbage", -1, g[:[]int{22, 22, 19, 7, 0}[x%5]])
				}
			}
		}
	}()
	n := []int{1, 5, 25, 100, 500}[run%5]
	if churn > 0 {
		n = churn
	}
	var wg sync.WaitGroup
	var doneCalls int64
	closeAt := -1
	if run%2 == 1 {
		closeAt = 1 + r.Intn(n)
	}
	closeDone := make(chan struct{})
	for i := 1; i <= n; i++ {
		if i == closeAt {
			// a second, concurrent Close: exactly one of the two may succeed
			go func() {
				defer func() {
					if x := recover(); x != nil {
						emit(map[string]interface{}{"k": "libpanic", "report": fmt.Sprint("concurrent Close panicked: ", x)})
					}
				}()
				err := cli.Close()
				emit(map[string]interface{}{"k": "close_ret2", "err": fmtErr(err)})
			}()
			go func() {
				defer func() {
					if x := recover(); x != nil {
						emit(map[string]interface{}{"k": "libpanic", "report": fmt.Sprint("Close panicked: ", x)})
						close(closeDone)
					}
				}()
				emit(map[string]interface{}{"k": "close_call"})
				err := cli.Close()
				alive := libGoroutinesOf(cli)
				for k := 0; k < 500 && len(alive) > 0; k++ {
					time.Sleep(time.Millisecond)
					alive = libGoroutinesOf(cli)
				}
				emit(map[string]interface{}{"k": "close_ret", "err": fmtErr(err), "alive": alive, "free": true})
				close(closeDone)
			}()
		}
		wg.Add(1)
		call := func(i int) {
			defer wg.Done()
			defer atomic.AddInt64(&doneCalls, 1)
			m := new(stun.Message)
			m.TransactionID = cliID(i)
			m.Type = stun.BindingRequest
			m.WriteHeader()
			m.Add(stun.AttrSoftware, make([]byte, 4*(i%200)))
			snapshot := append([]byte(nil), m.Raw...)
			h := func(e stun.Event) {
				var raw []int
				attrs := [][3]int{}
				if e.Message != nil {
					raw = ints(e.Message.Raw)
					attrs = snapshotAttrs(e.Message)
				}
				emit(map[string]interface{}{"k": "handler", "s": i, "p": c.procName(), "kind": evKind(e),
					"id": idIndex(e.TransactionID), "msg": raw, "attrs": attrs, "t": c.now()})
				if i%8 == 2 {
					time.Sleep(50 * time.Microsecond) // a handler that takes its time: Do must not return before it is through
				}
				emit(map[string]interface{}{"k": "handler_done", "s": i})
			}
			isInd := i%9 == 5
			isDo := i%2 == 0 && !isInd // an indication among the transactions: written once, never registered, replies are strangers
			emit(map[string]interface{}{"k": "start_call", "s": i, "id": i, "raw": ints(snapshot), "t": c.now(), "do": isDo, "ind": isInd})
			var err error
			switch {
			case isInd:
				err = cli.Indicate(m)
			case isDo:
				err = cli.Do(m, h)
			default:
				err = cli.Start(m, h)
			}
			for j := range m.Raw {
				m.Raw[j] = 0xEE
			}
			emit(map[string]interface{}{"k": "start_ret", "s": i, "err": fmtErr(err), "do": isDo})
		}
		if churn > 0 {
			call(i) // one after the other
		} else {
			go call(i)
		}
		if i%16 == 0 {
			runtime.Gosched()
		}
	}
	// callers must come back (Do waits for its handler): watchdog
	fin := make(chan struct{})
	go func() { wg.Wait(); close(fin) }()
	select {
	case <-fin:
	case <-time.After(30 * time.Second):
		buf := make([]byte, 1<<16)
		k := runtime.Stack(buf, true)
		freeStuck++
		emit(map[string]interface{}{"k": "stuck", "report": string(buf[:k])})
	}
	// let the remaining transactions run into their responses / timeouts, then close (if not closed yet)
	if closeAt < 0 {
		time.Sleep(5 * time.Millisecond)
		readerAlive := false
		for _, g := range libGoroutinesOf(cli) {
			readerAlive = readerAlive || g == "reader"
		}
		if !readerAlive {
			emit(map[string]interface{}{"k": "exit", "p": "RD"}) // the reader must live until Close
		}
		emit(map[string]interface{}{"k": "close_call"})
		err := cli.Close()
		alive := libGoroutinesOf(cli)
		for k := 0; k < 500 && len(alive) > 0; k++ {
			time.Sleep(time.Millisecond)
			alive = libGoroutinesOf(cli)
		}
		emit(map[string]interface{}{"k": "close_ret", "err": fmtErr(err), "alive": alive, "free": true})
	} else {
		select {
		case <-closeDone:
		case <-time.After(10 * time.Second):
			buf := make([]byte, 1<<16)
			k := runtime.Stack(buf, true)
			freeStuck++
			emit(map[string]interface{}{"k": "stuck", "report": "Close did not return: " + string(buf[:k])})
		}
	}
	// calls that begin after Close has returned: Start, Do and Indicate are refused without writing
	for j, kind := range []string{"start", "do", "indicate"} {
		i := 50000 + j
		m := new(stun.Message)
		m.TransactionID = cliID(i)
		m.Type = stun.BindingRequest
		m.WriteHeader()
		emit(map[string]interface{}{"k": "start_call", "s": i, "id": i, "raw": ints(m.Raw), "t": c.now()})
		var err error
		h := func(e stun.Event) {
			emit(map[string]interface{}{"k": "handler", "s": i, "p": c.procName(), "kind": evKind(e), "id": idIndex(e.TransactionID), "msg": []int{}, "t": c.now()})
			emit(map[string]interface{}{"k": "handler_done", "s": i})
		}
		back := make(chan struct{})
		kind := kind
		go func() {
			switch kind {
			case "start":
				err = cli.Start(m, h)
			case "do":
				err = cli.Do(m, h)
			default:
				err = cli.Indicate(m)
			}
			close(back)
		}()
		select {
		case <-back:
		case <-time.After(5 * time.Second):
			freeStuck++
			emit(map[string]interface{}{"k": "stuck", "report": "a call begun after Close was called does not return: " + kind})
			continue
		}
		emit(map[string]interface{}{"k": "start_ret", "s": i, "err": fmtErr(err)})
	}
	close(stop)
	emit(map[string]interface{}{"k": "end", "drifted": false, "free": true})
	atomic.StoreInt32(&logging, 0)
	conn.forceClose()
}

// closeStorm: 8 goroutines released together call Close on one client with two transactions in flight. Exactly one
// Close may succeed, the connection is closed once (never under WithNoConnClose), each handler gets its closed event
// once, nothing panics.
func closeStorm(tw *traceWriter, trial int) {
	var logging int32 = 1
	emit := func(m map[string]interface{}) {
		if atomic.LoadInt32(&logging) == 0 {
			return
		}
		m["tr"] = 200000 + trial
		tw.emit(m)
	}
	c := newGctl(emit)
	c.free = true
	conn := &gConn{c: c, closeCh: make(chan struct{}), inQ: make(chan []byte, 16), outQ: make(chan []byte, 16)}
	ga := &gAgent{c: c, a: stun.NewAgent(nil)}
	closeConn := trial%3 != 2
	opts := []stun.ClientOption{stun.WithAgent(ga), stun.WithClock(gClock{c}), stun.WithRTO(time.Second),
		stun.WithTimeoutRate(time.Millisecond)}
	if !closeConn {
		opts = append(opts, stun.WithNoConnClose())
	}
	emit(map[string]interface{}{"k": "cfg", "maxattempts": 7, "closeconn": closeConn, "fallback": false, "rto": 1, "free": true})
	cli, err := stun.NewClient(conn, opts...)
	if err != nil {
		panic(err)
	}
	for i := 1; i <= 2; i++ {
		i := i
		m := new(stun.Message)
		m.TransactionID = cliID(i)
		m.Type = stun.BindingRequest
		m.WriteHeader()
		emit(map[string]interface{}{"k": "start_call", "s": i, "id": i, "raw": ints(m.Raw), "t": c.now(), "do": false})
		err := cli.Start(m, func(e stun.Event) {
			emit(map[string]interface{}{"k": "handler", "s": i, "p": c.procName(), "kind": evKind(e),
				"id": idIndex(e.TransactionID), "msg": []int{}, "t": c.now()})
			emit(map[string]interface{}{"k": "handler_done", "s": i})
		})
		emit(map[string]interface{}{"k": "start_ret", "s": i, "err": fmtErr(err), "do": false})
	}
	const closers = 8
	var ready, done sync.WaitGroup
	gate := make(chan struct{})
	emit(map[string]interface{}{"k": "close_call"})
	for k := 0; k < closers; k++ {
		ready.Add(1)
		done.Add(1)
		go func() {
			defer done.Done()
			defer func() {
				if x := recover(); x != nil {
					emit(map[string]interface{}{"k": "libpanic", "report": fmt.Sprint("concurrent Close panicked: ", x)})
				}
			}()
			ready.Done()
			<-gate
			err := cli.Close()
			if err == nil {
				alive := libGoroutinesOf(cli)
				for j := 0; j < 500 && len(alive) > 0; j++ {
					time.Sleep(time.Millisecond)
					alive = libGoroutinesOf(cli)
				}
				emit(map[string]interface{}{"k": "close_ret", "err": fmtErr(err), "alive": alive, "free": true})
				return
			}
			emit(map[string]interface{}{"k": "close_ret2", "err": fmtErr(err)})
		}()
	}
	ready.Wait()
	close(gate)
	if !closeConn {
		// precondition of WithNoConnClose: the owner of the connection makes its Read return
		time.Sleep(200 * time.Microsecond)
		conn.forceClose()
	}
	fin := make(chan struct{})
	go func() { done.Wait(); close(fin) }()
	select {
	case <-fin:
	case <-time.After(20 * time.Second):
		buf := make([]byte, 1<<16)
		k := runtime.Stack(buf, true)
		freeStuck++
		emit(map[string]interface{}{"k": "stuck", "report": "concurrent Close calls did not all return: " + string(buf[:k])})
	}
	emit(map[string]interface{}{"k": "end", "drifted": false, "free": true})
	atomic.StoreInt32(&logging, 0)
	conn.forceClose()
}
