//go:build verif

package stun_test

import (
	"bufio"
	"encoding/json"
	"errors"
	"fmt"
	"io"
	"os"
	"runtime"
	"strings"
	"sync/atomic"
	"testing"
	"time"

	"github.com/pion/stun/v3"
)

// ---- replay of TLC behaviours of spec/Client.tla on a real Client ------------------------------------------

type cliStep struct {
	P       string `json:"p"`
	From    string `json:"from"`
	To      string `json:"to"`
	Wok     bool   `json:"wok"`
	Clock   int64  `json:"clock"`
	Tick    bool   `json:"tick"`
	SetRTO  int    `json:"setrto"`
	Do      bool   `json:"do"`  // (on a caller's first step) the caller is Client.Do
	Dup     bool   `json:"dup"` // the caller's whole call: a Start/Do with a transaction id that is registered already
	Deliver struct {
		Kind string `json:"kind"`
		ID   string `json:"id"`
	} `json:"deliver"`
}

type cliSchedule struct {
	Tr          int       `json:"tr"`
	Steps       []cliStep `json:"steps"`
	MaxAttempts int       `json:"maxattempts"` // 0 = WithNoRetransmit, otherwise the default (7)
	CloseConn   bool      `json:"closeconn"`
	Fallback    bool      `json:"fallback"`
	MsgSize     int       `json:"msgsize"`
	CloseFault  string    `json:"closefault"` // "", "conn" or "agent": which Close reports an error
	SameID      bool      `json:"sameid"`     // both callers use the transaction id of the first one
}

var gateToPC = map[string][2]string{ // gate -> pc outside / inside a callback
	"clock.Now":       {"S_now", "R_now"},
	"client.start":    {"S_cstart", "R_cstart"},
	"agent.Start":     {"S_agentStart", "R_agentStart"},
	"conn.Write":      {"S_write", "R_write"},
	"agent.Stop":      {"S_agentStop", "R_agentStop"},
	"cb.enter":        {"CB_enter", "CB_enter"},
	"cb.exit":         {"CB_exit", "CB_exit"},
	"uh":              {"UH", "UH"},
	"fb":              {"FB", "FB"},
	"conn.Read":       {"RD_read", "RD_read"},
	"agent.Process":   {"RD_process", "RD_process"},
	"cl.idle":         {"CL_idle", "CL_idle"},
	"collector.Close": {"X_collClose", "X_collClose"},
	"agent.Close":     {"X_agentClose", "X_agentClose"},
	"conn.Close":      {"X_connClose", "X_connClose"},
}

type replayer struct {
	c        *gctl
	cli      *stun.Client
	conn     *gConn
	depth    map[string]int
	done     map[string]bool
	started  map[string]bool
	emit     func(map[string]interface{})
	sch      cliSchedule
	drifted  bool
	logging  int32
	isDo     map[string]bool // callers that use Client.Do
	isInd    map[string]bool // callers that use Client.Indicate
	ndeliver int             // datagrams delivered so far in this schedule
	ga       *gAgent
	driftSeq int             // number of the last agent call begun before the first drift
	waiting  map[string]bool // Do callers seen blocked in callbackWaitHandler.wait
	hdone    map[string]bool // callers whose handler has returned (guarded by c.mu)
}

const stepTimeout = 6 * time.Second

func startIndex(p string) int {
	if p == "s2" {
		return 2
	}
	return 1
}

func modelID(id string) int {
	switch id {
	case "id1":
		return 1
	case "id2":
		return 2
	}
	return 99 // "unk"
}

// stepTimeouts counts the steps of this process that ended in a timeout (a goroutine that neither parked nor finished)
var stepTimeouts int

func (r *replayer) drift(why string, st cliStep, got string) {
	if got == "timeout" {
		stepTimeouts++
	}
	if !r.drifted && r.ga != nil {
		r.ga.hmu.Lock()
		r.driftSeq = r.ga.seq
		r.ga.hmu.Unlock()
	}
	r.drifted = true
	if r.cli != nil && !r.done["RD"] && !r.readerAlive() {
		// the reader goroutine is gone although the model has it parked at a gate
		r.done["RD"] = true
		r.emit(map[string]interface{}{"k": "exit", "p": "RD"})
	}
	r.emit(map[string]interface{}{"k": "drift", "why": why, "p": st.P, "from": st.From, "want": st.To, "got": got})
}

// waitArrival waits for proc p to park at its next gate or to finish. Returns (gate, finished, ok).
func (r *replayer) waitFor(p string) (*gateArr, bool, bool) {
	deadline := time.After(stepTimeout)
	for {
		select {
		case a := <-r.c.arrivals:
			r.c.mu.Lock()
			r.c.parked[a.proc] = a
			r.c.mu.Unlock()
			switch a.name {
			case "cb.enter":
				r.depth[a.proc]++
			case "cb.exit":
				r.depth[a.proc]--
			}
			if a.proc == p {
				return a, false, true
			}
			// another goroutine moved although only p was released: unexpected, keep it parked
		case f := <-r.c.finished:
			r.c.mu.Lock()
			r.done[f] = true
			r.c.mu.Unlock()
			if f == p {
				return nil, true, true
			}
		case <-deadline:
			return nil, false, false
		case <-time.After(100 * time.Millisecond):
			// a reader goroutine that is gone will not arrive anywhere: no point in waiting the step out
			if p == "RD" && r.cli != nil && !r.readerAlive() {
				return nil, false, false
			}
		}
	}
}

func (r *replayer) release(p string, resp gateResp) bool {
	r.c.mu.Lock()
	a := r.c.parked[p]
	delete(r.c.parked, p)
	r.c.mu.Unlock()
	if a == nil {
		return false
	}
	a.release <- resp
	return true
}

func (r *replayer) pcOf(a *gateArr) string {
	m, ok := gateToPC[a.name]
	if !ok {
		return a.name
	}
	if a.name == "conn.Write" && r.isInd[a.proc] {
		return "I_write"
	}
	d := r.depth[a.proc]
	if a.name == "cb.exit" {
		d++ // the depth was already decremented on arrival
	}
	if d > 0 {
		return m[1]
	}
	return m[0]
}

// doWaiting counts this client's Do callers that are blocked in callbackWaitHandler.wait.
func (r *replayer) doWaiting() int {
	buf := make([]byte, 1<<20)
	n := runtime.Stack(buf, true)
	ptr := fmt.Sprintf("(*Client).Do(%p", r.cli)
	k := 0
	for _, g := range strings.Split(string(buf[:n]), "\n\n") {
		// (in wait(): on the condition variable, or on its mutex while HandleEvent is running the callback)
		if strings.Contains(g, ptr) && strings.Contains(g, "(*callbackWaitHandler).wait") {
			k++
		}
	}
	return k
}

// knownWaiting: Do callers that were seen blocked and have not come back yet
func (r *replayer) knownWaiting() int {
	k := 0
	for p := range r.waiting {
		if !r.done[p] {
			k++
		}
	}
	return k
}

func (r *replayer) readerAlive() bool {
	for _, g := range libGoroutinesOf(r.cli) {
		if g == "reader" {
			return true
		}
	}
	return false
}

// settle waits until the released process is parked again (or finished, or blocked inside the library where
// the model says so) and compares the place with the model's prediction.
func (r *replayer) settle(st cliStep) {
	p := st.P
	if st.To == "RD_done" {
		// the reader goroutine returns inside the library: observed through its disappearance
		for i := 0; i < 600; i++ {
			if !r.readerAlive() {
				r.done["RD"] = true
				r.emit(map[string]interface{}{"k": "exit", "p": "RD"})
				return
			}
			select {
			case a := <-r.c.arrivals:
				r.c.mu.Lock()
				r.c.parked[a.proc] = a
				r.c.mu.Unlock()
				if a.proc == "RD" {
					r.drift("wrong-gate", st, r.pcOf(a))
					return
				}
			case <-time.After(5 * time.Millisecond):
			}
		}
		r.drift("reader-still-alive", st, "alive")
		return
	}
	if st.To == "D_wait" {
		// Start returned nil inside Do: the caller is now blocked in callbackWaitHandler.wait (not a gate), or has
		// come back already because its handler finished earlier
		deadline := time.Now().Add(stepTimeout)
		for time.Now().Before(deadline) {
			select {
			case x := <-r.c.arrivals:
				r.c.mu.Lock()
				r.c.parked[x.proc] = x
				r.c.mu.Unlock()
				if x.proc == p {
					r.drift("wrong-gate", st, r.pcOf(x))
					return
				}
			case f := <-r.c.finished:
				r.c.mu.Lock()
				r.done[f] = true
				r.c.mu.Unlock()
				if f == p {
					return
				}
			case <-time.After(2 * time.Millisecond):
				if r.doWaiting() > r.knownWaiting() {
					r.waiting[p] = true
					r.emit(map[string]interface{}{"k": "do_waiting", "s": startIndex(p)})
					return
				}
			}
		}
		r.drift("no-arrival", st, "timeout")
		return
	}
	blockedOK := st.To == "X_wait" || (st.To == "X_connClose" && !r.sch.CloseConn)
	for {
		var a *gateArr
		var fin, ok bool
		if blockedOK {
			// Close may park in wg.Wait (not a gate): poll for that while waiting
			deadline := time.Now().Add(stepTimeout)
			for !ok && time.Now().Before(deadline) {
				select {
				case x := <-r.c.arrivals:
					r.c.mu.Lock()
					r.c.parked[x.proc] = x
					r.c.mu.Unlock()
					if x.proc == p {
						a, ok = x, true
					}
				case f := <-r.c.finished:
					r.done[f] = true
					if f == p {
						fin, ok = true, true
					}
				case <-time.After(3 * time.Millisecond):
					if goroutineBlocked([]string{fmt.Sprintf("(*Client).Close(%p", r.cli)}, "sync.(*WaitGroup).Wait") {
						return
					}
				}
			}
		} else {
			a, fin, ok = r.waitFor(p)
		}
		if !ok {
			r.drift("no-arrival", st, "timeout")
			return
		}
		if fin {
			switch st.To {
			case "done", "X_done", "X_done_err", "CL_stopped", "S_stopret", "X_wait", "X_connClose":
				return
			}
			r.drift("finished-early", st, "finished")
			return
		}
		// gates the model does not stop at
		if a.name == "agent.Collect" {
			r.release(p, gateResp{})
			continue
		}
		if st.From == "R_agentStop" && a.info != nil && a.info["kind"] == "stopped" &&
			((a.name == "cb.enter" && r.depth[p] >= 2) || (a.name == "cb.exit" && r.depth[p] >= 1)) {
			// nested stopped event of agent.Stop inside the retransmission error path
			r.release(p, gateResp{})
			continue
		}
		got := r.pcOf(a)
		if got != st.To {
			r.drift("wrong-gate", st, got)
		}
		return
	}
}

// looseStep executes one step of the schedule after a drift (see runSchedule).
func (r *replayer) looseStep(st cliStep) {
	switch {
	case st.P == "env" && st.SetRTO != 0:
		r.emit(map[string]interface{}{"k": "setrto", "v": st.SetRTO})
		r.cli.SetRTO(time.Duration(st.SetRTO) * time.Second)
		return
	case st.P == "env" && st.Tick:
		r.c.mu.Lock()
		r.c.clock = st.Clock
		r.c.mu.Unlock()
		r.emit(map[string]interface{}{"k": "tick", "t": st.Clock})
		return
	case st.P == "env":
		id := modelID(st.Deliver.ID)
		data := respMessage(cliID(id), 3+id)
		if st.Deliver.Kind == "garbage" {
			data = []byte{0, 1, 0, 0, 9, 9, 9, 9, 1, 2, 3, 4, 5, 6, 7, 8, 9, 10, 11, 12, 13}
		}
		r.c.inbox, r.c.hasInbox = data, true
		r.emit(map[string]interface{}{"k": "deliver", "kind": st.Deliver.Kind, "id": id, "raw": ints(data)})
		return
	case st.From == "idle":
		if !r.started[st.P] {
			r.started[st.P] = true
			r.spawnStart(st.P, 0)
		}
	case st.From == "X_begin":
		if !r.started["X"] {
			r.started["X"] = true
			r.spawnClose()
		}
	default:
		r.c.mu.Lock()
		a := r.c.parked[st.P]
		r.c.mu.Unlock()
		if a == nil {
			return // finished, blocked inside the library, or still running
		}
		var resp gateResp
		switch a.name {
		case "conn.Write":
			resp.fail = (st.From == "S_write" || st.From == "R_write" || st.From == "I_write") && !st.Wok
		case "conn.Read":
			if !r.c.hasInbox {
				return // nothing to read: the reader stays where it is
			}
			resp.data = r.c.inbox
			r.c.hasInbox = false
		case "cl.idle":
			resp.now = r.c.now()
		}
		r.release(st.P, resp)
	}
	// wait (briefly) until the goroutine parks again or ends; one that blocks inside the library is left alone
	deadline := time.After(40 * time.Millisecond)
	for {
		select {
		case x := <-r.c.arrivals:
			r.c.mu.Lock()
			r.c.parked[x.proc] = x
			r.c.mu.Unlock()
			if x.proc == st.P && x.name == "agent.Collect" {
				r.release(st.P, gateResp{}) // not a stop of the model: go on to the next one
				continue
			}
			if x.proc == st.P {
				return
			}
		case f := <-r.c.finished:
			r.c.mu.Lock()
			r.done[f] = true
			r.c.mu.Unlock()
			if f == st.P {
				return
			}
		case <-deadline:
			return
		}
	}
}

func (r *replayer) spawnStart(p string, refusedVariant int) {
	idx := startIndex(p)
	idIdx := idx
	if r.sch.SameID {
		idIdx = 1
	}
	id := cliID(idIdx)
	size := r.sch.MsgSize
	m := new(stun.Message)
	m.TransactionID = id
	m.Type = stun.BindingRequest
	m.WriteHeader()
	for len(m.Raw)+8 < size {
		n := size - len(m.Raw) - 4
		if n > 700 {
			n = 700
		}
		n -= n % 4
		m.Add(stun.AttrSoftware, make([]byte, n))
	}
	snapshot := append([]byte(nil), m.Raw...)
	h := func(e stun.Event) {
		var raw []int
		attrs := [][3]int{}
		if e.Message != nil {
			raw = ints(e.Message.Raw)
			attrs = snapshotAttrs(e.Message)
		}
		r.emit(map[string]interface{}{"k": "handler", "s": idx, "p": r.c.procName(), "kind": evKind(e),
			"id": idIndex(e.TransactionID), "msg": raw, "attrs": attrs, "t": r.c.now()})
		r.c.arrive("uh", nil)
		r.emit(map[string]interface{}{"k": "handler_done", "s": idx})
		r.c.mu.Lock()
		r.hdone[p] = true
		r.c.mu.Unlock()
	}
	useDo := refusedVariant == 1 || r.isDo[p]
	if r.isInd[p] {
		useDo, refusedVariant = false, 2
	}
	go func() {
		r.c.register(p)
		r.emit(map[string]interface{}{"k": "start_call", "s": idx, "id": idIdx, "raw": ints(snapshot), "t": r.c.now(), "do": useDo, "ind": refusedVariant == 2})
		var err error
		switch {
		case useDo: // (refusedVariant 1: the model says this call is refused at once; Do and Indicate must be refused alike)
			err = r.cli.Do(m, h)
		case refusedVariant == 2:
			err = r.cli.Indicate(m)
		default:
			err = r.cli.Start(m, h)
		}
		// the caller reuses its message right after Start
		for i := range m.Raw {
			m.Raw[i] = 0xEE
		}
		r.emit(map[string]interface{}{"k": "start_ret", "s": idx, "err": fmtErr(err), "do": useDo})
		r.c.finished <- p
	}()
}

func (r *replayer) spawnClose() {
	go func() {
		r.c.register("X")
		r.emit(map[string]interface{}{"k": "close_call"})
		var err error
		func() {
			defer func() {
				if x := recover(); x != nil {
					r.emit(map[string]interface{}{"k": "libpanic", "report": fmt.Sprint("Close panicked: ", x)})
					err = errors.New("panic")
				}
			}()
			err = r.cli.Close()
		}()
		// a goroutine that has signalled its WaitGroup may need a moment to leave the scheduler's books
		alive := libGoroutinesOf(r.cli)
		for i := 0; i < 500 && len(alive) > 0; i++ {
			time.Sleep(time.Millisecond)
			alive = libGoroutinesOf(r.cli)
		}
		r.emit(map[string]interface{}{"k": "close_ret", "err": fmtErr(err), "alive": alive})
		r.c.finished <- "X"
	}()
}

func runSchedule(tw *traceWriter, sch cliSchedule) {
	r := &replayer{depth: map[string]int{}, done: map[string]bool{}, started: map[string]bool{}, sch: sch, logging: 1,
		isDo: map[string]bool{}, waiting: map[string]bool{}, hdone: map[string]bool{}, isInd: map[string]bool{}}
	// which callers are Client.Do / Client.Indicate: as the model chose at the caller's first step (a call that the
	// model has refused at once is Start, Do or Indicate in turn, see spawnStart)
	for _, st := range sch.Steps {
		if st.From == "idle" {
			r.isDo[st.P] = st.Do
			r.isInd[st.P] = st.To == "I_write"
		}
	}
	r.emit = func(m map[string]interface{}) {
		if atomic.LoadInt32(&r.logging) == 0 {
			return
		}
		m["tr"] = sch.Tr
		tw.emit(m)
	}
	r.c = newGctl(r.emit)
	r.conn = &gConn{c: r.c, closeCh: make(chan struct{}), inQ: make(chan []byte, 16)}
	ga := &gAgent{c: r.c, a: stun.NewAgent(nil)}
	r.ga = ga
	switch sch.CloseFault {
	case "conn":
		r.conn.closeErr = errors.New("injected connection close error")
	case "agent":
		ga.closeErr = errors.New("injected agent close error")
	}
	opts := []stun.ClientOption{stun.WithAgent(ga), stun.WithClock(gClock{r.c}), stun.WithCollector(&gCollector{c: r.c}),
		stun.WithRTO(time.Second)}
	if sch.Fallback {
		opts = append(opts, stun.WithHandler(func(e stun.Event) {
			var raw []int
			attrs := [][3]int{}
			if e.Message != nil {
				raw = ints(e.Message.Raw)
				attrs = snapshotAttrs(e.Message)
			}
			r.emit(map[string]interface{}{"k": "fallback", "p": r.c.procName(), "kind": evKind(e), "id": idIndex(e.TransactionID), "msg": raw, "attrs": attrs})
			r.c.arrive("fb", nil)
		}))
	}
	if sch.MaxAttempts == 0 {
		opts = append(opts, stun.WithNoRetransmit)
	}
	if !sch.CloseConn {
		opts = append(opts, stun.WithNoConnClose())
	}
	r.emit(map[string]interface{}{"k": "cfg", "maxattempts": map[bool]int{true: 0, false: 7}[sch.MaxAttempts == 0],
		"closeconn": sch.CloseConn, "fallback": sch.Fallback, "rto": 1})
	cli, err := stun.NewClient(r.conn, opts...)
	if err != nil {
		panic(err)
	}
	r.cli = cli
	clientGates.Store(cli, r.c)
	defer clientGates.Delete(cli)
	// the reader and the collector park at their first gates
	for _, p := range []string{"RD", "CL"} {
		_ = p
	}
	need := map[string]bool{"RD": true, "CL": true}
	for len(need) > 0 {
		select {
		case a := <-r.c.arrivals:
			r.c.mu.Lock()
			r.c.parked[a.proc] = a
			r.c.mu.Unlock()
			delete(need, a.proc)
		case <-time.After(stepTimeout):
			r.emit(map[string]interface{}{"k": "drift", "why": "startup", "p": "", "from": "", "want": "", "got": "timeout"})
			need = nil
			r.drifted = true
		}
	}
	for _, st := range sch.Steps {
		if r.drifted {
			// the real client has left the model's behaviour: the rest of the schedule is still used as a script -
			// the same goroutines are released in the same order, the environment acts as planned - but where a
			// goroutine parks next is no longer compared with the model (the monitors keep watching)
			r.looseStep(st)
			continue
		}
		switch {
		case st.P == "env" && st.SetRTO != 0:
			r.emit(map[string]interface{}{"k": "setrto", "v": st.SetRTO})
			cli.SetRTO(time.Duration(st.SetRTO) * time.Second)
		case st.P == "env" && st.Tick:
			r.c.mu.Lock()
			r.c.clock = st.Clock
			r.c.mu.Unlock()
			r.emit(map[string]interface{}{"k": "tick", "t": st.Clock})
		case st.P == "env":
			var data []byte
			id := modelID(st.Deliver.ID)
			if st.Deliver.Kind == "garbage" {
				data = []byte{0, 1, 0, 0, 9, 9, 9, 9, 1, 2, 3, 4, 5, 6, 7, 8, 9, 10, 11, 12, 13}
				if sch.Tr%4 == 3 {
					// shorter than a STUN header (an empty datagram included): a prefix of a response for the in-flight id
					data = respMessage(cliID(1), 4)[:(sch.Tr/4)%20]
				}
				if sch.Tr%2 == 0 {
					// undecodable in a subtler way: a response for the in-flight id whose header length stops in the
					// middle of its last attribute, with the rest of the attribute still present behind it
					data = respMessage(cliID(1), 17)
					m2 := new(stun.Message)
					_ = stun.Decode(data, m2)
					m2.Add(stun.AttrRealm, []byte("example.org"))
					data = append([]byte(nil), m2.Raw...)
					n := len(data) - 20 - 8
					data[2], data[3] = byte(n>>8), byte(n)
				}
			} else {
				// datagram sizes up to the client's 1024-byte read buffer (exactly full included)
				// (sizes change from one delivery to the next; -1: a bare header, nothing for the decoder to do)
				r.ndeliver++
				extra := []int{3 + id, -1, 3 + id, 488, 996, -1, 1000}[(sch.Tr+r.ndeliver)%7]
				data = respMessage(cliID(id), extra)
			}
			r.c.inbox, r.c.hasInbox = data, true
			r.emit(map[string]interface{}{"k": "deliver", "kind": st.Deliver.Kind, "id": id, "raw": ints(data)})
		case st.From == "idle" && st.Dup:
			// a duplicate Start / Do: one model action - the call runs through its gates to its return (refused)
			r.started[st.P] = true
			r.isDo[st.P] = sch.Tr%2 == 1
			r.spawnStart(st.P, 0)
			for {
				a, fin, ok := r.waitFor(st.P)
				if !ok {
					r.drift("no-arrival", st, "timeout")
					break
				}
				if fin {
					break
				}
				if a.name != "clock.Now" && a.name != "client.start" {
					r.drift("wrong-gate", st, r.pcOf(a)) // a refused duplicate gets no further than the registration
					break
				}
				r.release(st.P, gateResp{})
			}
		case st.From == "idle":
			r.started[st.P] = true
			variant := 0
			if st.To == "done" {
				variant = sch.Tr % 3
			}
			r.spawnStart(st.P, variant)
			r.settle(st)
		case st.From == "X_begin":
			r.started["X"] = true
			r.spawnClose()
			r.settle(st)
		case st.From == "D_wait":
			// Do returns by itself once its handler has finished
			if !r.done[st.P] {
				if _, fin, ok := r.waitFor(st.P); !ok || !fin {
					r.drift("do-did-not-return", st, "blocked")
				}
			}
		case st.From == "S_stopret":
			// same segment as the preceding callback exit in the real code
		case st.From == "X_wait":
			// Close returns once the reader is gone
			if !r.done["X"] {
				if _, fin, ok := r.waitFor("X"); !ok || !fin {
					r.drift("close-did-not-return", st, "blocked")
				}
			}
		case st.From == "X_connClose" && !sch.CloseConn:
			// no conn.Close gate under WithNoConnClose
		default:
			var resp gateResp
			switch st.From {
			case "S_write", "R_write", "I_write":
				resp.fail = !st.Wok
			case "RD_read":
				if st.To == "RD_done" {
					resp.err = io.EOF
				} else {
					resp.data = r.c.inbox
					r.c.hasInbox = false
				}
			case "CL_idle":
				resp.now = r.c.now()
			}
			if !r.release(st.P, resp) {
				r.drift("not-parked", st, "none")
				break
			}
			r.settle(st)
		}
	}
	// switch to free running: every parked goroutine continues, late arrivals are released at once
	goFree := func() chan struct{} {
		r.c.mu.Lock()
		r.c.free = true
		parked := r.c.parked
		r.c.parked = map[string]*gateArr{}
		r.c.mu.Unlock()
		rel := func(a *gateArr) {
			switch a.name {
			case "conn.Read":
				a.release <- gateResp{err: io.EOF}
			case "cl.idle":
				a.release <- gateResp{stop: true}
			default:
				a.release <- gateResp{}
			}
		}
		for _, a := range parked {
			rel(a)
		}
		stopDrain := make(chan struct{})
		go func() {
			for {
				select {
				case a := <-r.c.arrivals:
					rel(a)
				case f := <-r.c.finished:
					r.c.mu.Lock()
					r.done[f] = true
					r.c.mu.Unlock()
				case <-stopDrain:
					return
				}
			}
		}()
		return stopDrain
	}
	isDone := func(p string) bool {
		r.c.mu.Lock()
		defer r.c.mu.Unlock()
		return r.done[p]
	}
	waitDone := func(p string, d time.Duration) bool {
		for t0 := time.Now(); time.Since(t0) < d; time.Sleep(200 * time.Microsecond) {
			if isDone(p) {
				return true
			}
		}
		return isDone(p)
	}
	var stopDrain chan struct{}
	if r.drifted {
		// the behaviour could not be followed: let the client run free, still recording, up to quiescence, so
		// that the requirement monitors see how the execution ends (a rejection is never hidden by drift)
		stopDrain = goFree()
		closeStarted := r.started["X"]
		wantClose := closeStarted
		for _, st := range sch.Steps {
			if st.From == "X_begin" {
				wantClose = true
			}
		}
		if wantClose && !closeStarted {
			r.started["X"] = true
			r.spawnClose()
		}
		if wantClose {
			if !sch.CloseConn {
				r.conn.forceClose() // precondition of WithNoConnClose: the connection's Read eventually returns
			}
			if !waitDone("X", 5*time.Second) {
				stuckCloses++ // Close does not come back although everything runs free
			}
		}
		for p := range r.started {
			if p != "X" {
				waitDone(p, time.Second)
			}
		}
		if !r.readerAlive() && !r.done["RD"] {
			r.emit(map[string]interface{}{"k": "exit", "p": "RD"})
		}
	}
	if !r.drifted {
		// a Do caller whose handler has finished comes back on its own: give it the time to do so
		for p := range r.waiting {
			r.c.mu.Lock()
			hd := r.hdone[p]
			r.c.mu.Unlock()
			if hd && !r.done[p] {
				r.waitFor(p) //nolint
			}
		}
	}
	if agentTW != nil {
		// the Agent's own history in this run (calls are sequential in a gated replay), judged against AgentCore;
		// of a run that left the model's behaviour, the part up to that point
		agentTW.emit(map[string]interface{}{"k": "new", "tr": sch.Tr, "h": 0, "n": 3, "tl": 0})
		for _, c := range ga.history() {
			if r.drifted && c.Seq > r.driftSeq {
				break
			}
			agentTW.emit(map[string]interface{}{"k": "call", "tr": sch.Tr, "op": c.Op, "id": c.ID, "d": c.D, "t": c.T, "h": c.H,
				"res": c.Res, "evs": c.Evs})
		}
	}
	r.c.mu.Lock()
	closeBack := r.done["X"]
	r.c.mu.Unlock()
	r.emit(map[string]interface{}{"k": "end", "drifted": r.drifted, "close_started": r.started["X"], "close_returned": closeBack})
	// cleanup outside the recorded behaviour
	atomic.StoreInt32(&r.logging, 0)
	if stopDrain == nil {
		stopDrain = goFree()
	}
	cdone := make(chan struct{})
	go func() {
		defer func() { recover(); close(cdone) }() //nolint
		cli.Close()                                //nolint
	}()
	time.Sleep(100 * time.Microsecond)
	r.conn.forceClose()
	select {
	case <-cdone:
	case <-time.After(2 * time.Second):
	}
	// do not start the next schedule while goroutines of this one still run: the library's transaction pool is
	// global, and a straggler that still holds a pooled object would disturb the next client's once-guard
	for t0 := time.Now(); time.Since(t0) < 2*time.Second; time.Sleep(100 * time.Microsecond) {
		all := true
		for p := range r.started {
			if !isDone(p) {
				all = false
			}
		}
		if all && !r.readerAlive() {
			break
		}
	}
	close(stopDrain)
}

func (g *gConn) forceClose() {
	g.mu.Lock()
	if !g.closed {
		g.closed = true
		close(g.closeCh)
	}
	g.mu.Unlock()
}

// stuckCloses counts the schedules of this process in which Close did not return after the run was let free; the
// replay stops early when that keeps happening (every such schedule costs several timeouts)
var stuckCloses int

// agentTW receives the Agent's history of every replayed schedule (VERIF_AGENT_TRACE_OUT)
var agentTW *traceWriter

func TestVerifClientReplay(t *testing.T) {
	tw := newTrace(t)
	defer tw.close()
	if p := os.Getenv("VERIF_AGENT_TRACE_OUT"); p != "" {
		f, err := os.Create(p)
		if err != nil {
			t.Fatal(err)
		}
		agentTW = &traceWriter{f: f, w: bufio.NewWriterSize(f, 1<<20)}
		defer agentTW.close()
	}
	f, err := os.Open(os.Getenv("VERIF_VECTORS"))
	if err != nil {
		t.Fatal(err)
	}
	defer f.Close()
	sc := bufio.NewScanner(f)
	sc.Buffer(make([]byte, 1<<20), 1<<26)
	tr := 0
	base := envInt("VERIF_TR_BASE", 0)
	for sc.Scan() {
		var s cliSchedule
		if err := json.Unmarshal(sc.Bytes(), &s); err != nil {
			t.Fatal(err)
		}
		tr++
		if tr <= base {
			continue // replayed by an earlier process (which a panic inside a library goroutine brought down)
		}
		if stuckCloses >= 25 || stepTimeouts >= 60 {
			// goroutines keep blocking where the model has them running: every such schedule costs seconds, and what
			// has been recorded is enough for the monitors
			fmt.Fprintf(os.Stderr, "replay stopped at schedule %d: %d step timeouts, Close did not return in %d schedules\n", tr, stepTimeouts, stuckCloses)
			break
		}
		s.Tr = tr
		if s.MsgSize == 0 {
			s.MsgSize = 20
		}
		runSchedule(tw, s)
	}
	fmt.Fprintf(os.Stderr, "replayed %d schedules\n", tr)
}
