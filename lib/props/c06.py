"""C06 - typed attributes round-trip and use the RFC wire formats."""
import json
import vlib


def run(ctx):
    rin = ctx.replay_input()
    vec = ctx.path("c06_vectors.ndjson")
    env = {}
    ncases = 0
    if rin is not None:
        with open(vec, "w") as fh:
            fh.write(json.dumps(rin) + "\n")
    else:
        r = ctx.tlc_model("AttrGen", "AttrGen.cfg", workers=4, heap_gb=4, name="attribute kind x form x boundary values, reference codec round trip")
        cases = [json.loads(json.loads(ln)[4:]) for ln in r["out"].splitlines() if ln.startswith('"VEC ')]
        if not cases:
            raise vlib.Inconclusive("no cases exported")
        with open(vec, "w") as fh:
            for c in cases:
                fh.write(json.dumps(c) + "\n")
        ncases = len(cases)
        env["VERIF_SWEEPS"] = "1"
    h = ctx.harness("stun")
    trace = ctx.path("c06.ndjson")
    ctx.drive(h, "TestVerifC06", env=dict(env, VERIF_TRACE_OUT=trace, VERIF_VECTORS=vec), timeout=900)
    files = ctx.shard(trace, vlib.NCPU * 2)
    ctx.validate("AttrTrace", files, heap_gb=3, timeout=1800)
    ctx.add_samples(trace, 4, maxlen=700)
    total = sum(1 for _ in open(trace))

    def input_of(rj):
        tl = dict(rj["trace_line"])
        if tl.get("src") == "lib":
            tl.pop("enc", None)   # re-encode with the library on replay
            tl["enc"] = None
        return tl
    ctx.input_of = input_of
    ctx.extra.update({"reference_cases": ncases, "values_checked": total})
    ctx.assumptions += ["StunAttrs is a faithful reading of RFC 5389 s15 / RFC 5780 s7 wire formats (its own round trip is model-checked on every case)",
                        "an IPv4-mapped 16-byte address and its 4-byte form are the same value"]
    return vlib.finish(ctx, traces_validated=total,
                       rule="TLC case structure (2969 cases: attribute kind x address form x boundary ports/TIDs/lengths/codes) each driven three ways, plus sweeps: all 65536 ports, all codes 300..699, all text lengths up to the limits, lists of 0..64 types, random addresses/TIDs for every AddToAs type")
