SPECIFICATION Spec
INVARIANT Sane
INVARIANT Export
CHECK_DEADLOCK FALSE
