------------------------------- MODULE AgentCore -----------------------------
(***************************************************************************)
(* The STUN agent (agent.go) as an abstract transaction table.             *)
(*                                                                         *)
(* State: tab (id -> deadline, or None when not registered), closed, and   *)
(* the identity of the installed handler.  Every call is one atomic step   *)
(* (its critical section under the agent mutex) that yields a result and   *)
(* the set of events handed to the handler that was installed at that      *)
(* moment.  The step functions are pure (state, arguments) -> outcome so   *)
(* that the model checker, the replay generator and the trace specs share  *)
(* one definition.                                                         *)
(***************************************************************************)
EXTENDS Integers, FiniteSets, Sequences

CONSTANT None        \* "not registered" / "no handler"

Ev(h, id, kind) == [h |-> h, id |-> id, kind |-> kind]

\* outcome of a call
Out(tab, closed, handler, res, evs) ==
  [tab |-> tab, closed |-> closed, handler |-> handler, res |-> res, evs |-> evs]

Same(s, res) == Out(s.tab, s.closed, s.handler, res, {})

Registered(s) == { i \in DOMAIN s.tab : s.tab[i] # None }

\* Start(id, deadline): fails for a closed agent or a duplicate id
StartF(s, id, d) ==
  IF s.closed THEN Same(s, "closed")
  ELSE IF s.tab[id] # None THEN Same(s, "exists")
  ELSE Out([s.tab EXCEPT ![id] = d], s.closed, s.handler, "ok", {})

\* Stop / StopWithError(id, kind): exactly one event for a registered id
StopF(s, id, kind) ==
  IF s.closed THEN Same(s, "closed")
  ELSE IF s.tab[id] = None THEN Same(s, "notexists")
  ELSE Out([s.tab EXCEPT ![id] = None], s.closed, s.handler, "ok", { Ev(s.handler, id, kind) })

\* Process(message with transaction id): always emits the message, unregisters its id
ProcessF(s, id) ==
  IF s.closed THEN Same(s, "closed")
  ELSE Out([i \in DOMAIN s.tab |-> IF i = id THEN None ELSE s.tab[i]], s.closed, s.handler, "ok",
           { Ev(s.handler, id, "msg") })

\* Collect(t): timeout for exactly the transactions whose deadline is strictly before t
CollectF(s, t) ==
  IF s.closed THEN Same(s, "closed")
  ELSE LET dead == { i \in Registered(s) : s.tab[i] < t } IN
       Out([i \in DOMAIN s.tab |-> IF i \in dead THEN None ELSE s.tab[i]], s.closed, s.handler, "ok",
           { Ev(s.handler, i, "timeout") : i \in dead })

SetHandlerF(s, h) ==
  IF s.closed THEN Same(s, "closed")
  ELSE Out(s.tab, s.closed, h, "ok", {})

\* Close: closed event for exactly the remaining transactions; then everything is refused
CloseF(s) ==
  IF s.closed THEN Same(s, "closed")
  ELSE Out([i \in DOMAIN s.tab |-> None], TRUE, None, "ok",
           { Ev(s.handler, i, "closed") : i \in Registered(s) })


InitAgOver(ids, h0) == [tab |-> [i \in ids |-> None], closed |-> FALSE, handler |-> h0]

=============================================================================
