//go:build verif

package stun_test

import (
	"testing"

	"github.com/pion/stun/v3"
)

// TestVerifC19 dumps the complete tables of MessageType.Value and ReadValue.
func TestVerifC19(t *testing.T) {
	tw := newTrace(t)
	defer tw.close()
	for m := 0; m < 4096; m++ {
		vals := make([]int, 4)
		for c := 0; c < 4; c++ {
			vals[c] = int(stun.MessageType{Method: stun.Method(m), Class: stun.MessageClass(c)}.Value())
		}
		tw.emit(map[string]interface{}{"k": "V", "m": m, "vals": vals})
	}
	for base := 0; base < 65536; base += 16 {
		mc := make([][2]int, 16)
		for i := 0; i < 16; i++ {
			var mt stun.MessageType
			mt.ReadValue(uint16(base + i))
			mc[i] = [2]int{int(mt.Method), int(mt.Class)}
		}
		tw.emit(map[string]interface{}{"k": "R", "base": base, "mc": mc})
	}
}
