SPECIFICATION Spec
CONSTANTS
  B = 16
  Full = TRUE
INVARIANT Agreement
INVARIANT Export
CHECK_DEADLOCK FALSE
