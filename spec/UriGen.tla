------------------------------- MODULE UriGen -------------------------------
(* Complete component product of UriRef, one TLC state per combination;    *)
(* exported with its assembled string ("VEC ...").  TLC also checks that   *)
(* the classification is total and that must-accept expectations satisfy   *)
(* the field constraints.                                                  *)
EXTENDS UriRef, Json
VARIABLE c
Init == \E s \in SchemeTokens, h \in Hosts, p \in Ports, q \in Queries :
          c = [s |-> s, h |-> h, p |-> p, q |-> q]
Next == UNCHANGED c
Spec == Init /\ [][Next]_c
Sane == /\ Classify(c.s, c.h, c.p, c.q) \in {"accept", "reject", "free"}
        /\ Classify(c.s, c.h, c.p, c.q) = "accept" => FieldsOK(Expected(c.s, c.h, c.p, c.q))
Export == PrintT("VEC " \o ToJson([s |-> c.s, h |-> c.h, p |-> c.p, q |-> c.q, text |-> Assemble(c.s, c.h, c.p, c.q)]))
=============================================================================
