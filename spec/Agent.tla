------------------------------- MODULE Agent -------------------------------
(***************************************************************************)
(* The STUN agent as a state machine over AgentCore's step functions:      *)
(* one action per public call (= one critical section of agent.go).        *)
(***************************************************************************)
EXTENDS AgentCore

CONSTANTS Ids,        \* transaction ids
          Times,      \* time points (integers)
          Handlers    \* handler identities

---------------------------------------------------------------------------
VARIABLES ag,    \* [tab, closed, handler]
          act,   \* label of the last call (output only)
          res,   \* its result (output only)
          evs    \* its events (output only)

vars == << ag, act, res, evs >>
View == ag

Apply(o, label) ==
  /\ ag' = [tab |-> o.tab, closed |-> o.closed, handler |-> o.handler]
  /\ act' = label
  /\ res' = o.res
  /\ evs' = o.evs

InitAg(h0) == InitAgOver(Ids, h0)

Init == /\ ag = InitAg(CHOOSE h \in Handlers : TRUE)
        /\ act = [op |-> "new"] /\ res = "ok" /\ evs = {}

Start(id, d)    == Apply(StartF(ag, id, d), [op |-> "start", id |-> id, d |-> d])
Stop(id)        == Apply(StopF(ag, id, "stopped"), [op |-> "stop", id |-> id])
StopErr(id)     == Apply(StopF(ag, id, "custom"), [op |-> "stoperr", id |-> id])
Process(id)     == Apply(ProcessF(ag, id), [op |-> "process", id |-> id])
Collect(t)      == Apply(CollectF(ag, t), [op |-> "collect", t |-> t])
SetHandler(h)   == Apply(SetHandlerF(ag, h), [op |-> "sethandler", h |-> h])
Close           == Apply(CloseF(ag), [op |-> "close"])

Next == \/ \E id \in Ids, d \in Times : Start(id, d)
        \/ \E id \in Ids : Stop(id) \/ StopErr(id) \/ Process(id)
        \/ \E t \in Times : Collect(t)
        \/ \E h \in Handlers : SetHandler(h)
        \/ Close

Spec == Init /\ [][Next]_vars

---------------------------------------------------------------------------
(* Properties of the design (checked exhaustively by TLC) *)

TypeOK == /\ ag.tab \in [Ids -> Times \cup {None}]
          /\ ag.closed \in BOOLEAN
          /\ ag.handler \in Handlers \cup {None}

ClosedIsEmpty == ag.closed => (Registered(ag) = {} /\ ag.handler = None)

Terminal == {"stopped", "custom", "timeout", "closed"}

\* every step: an id leaves the table iff this step emitted an event for it (terminal, or the
\* message that ended it), and a terminal event is emitted only for an id that was registered
ExactlyOneTerminal ==
  [][ /\ \A i \in Ids :
           (ag.tab[i] # None /\ ag'.tab[i] = None) => (\E e \in evs' : e.id = i)
      /\ \A e \in evs' : e.kind \in Terminal => (ag.tab[e.id] # None /\ ag'.tab[e.id] = None)
      /\ \A e1, e2 \in evs' : e1.id = e2.id => e1 = e2
      /\ \A e \in evs' : e.h = ag.handler ]_vars

\* after Close every call is refused and emits nothing
SilentAfterClose ==
  [][ ag.closed => (res' = "closed" /\ evs' = {} /\ ag' = ag) ]_vars

\* a registered id stays registered with the same deadline unless a step terminates it
StableUntilTerminated ==
  [][ \A i \in Ids : (ag.tab[i] # None /\ ag'.tab[i] # None) => ag'.tab[i] = ag.tab[i] ]_vars

=============================================================================
