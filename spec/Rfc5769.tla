------------------------------ MODULE Rfc5769 ------------------------------
(***************************************************************************)
(* RFC 5769 test vectors (2.1 sample request with short-term credentials,  *)
(* 2.4 request with long-term credentials) checked against the reference   *)
(* layer itself: StunWire.Parse, StunAuth.MiCheckOK / FpCheckOK /          *)
(* LongTermKey and the transcribed HMAC-SHA1 / MD5 / CRC-32.  This ties    *)
(* the reference to the RFC independently of the library.                  *)
(***************************************************************************)
EXTENDS StunAuth, TLC

Request == << 0, 1, 0, 88, 33, 18, 164, 66, 183, 231, 167, 1, 188, 52, 214, 134, 250, 135, 223, 174, 128, 34, 0, 16, 83, 84, 85, 78, 32, 116, 101, 115, 116, 32, 99, 108, 105, 101, 110, 116, 0, 36, 0, 4, 110, 0, 1, 255, 128, 41, 0, 8, 147, 47, 249, 177, 81, 38, 59, 54, 0, 6, 0, 9, 101, 118, 116, 106, 58, 104, 54, 118, 89, 32, 32, 32, 0, 8, 0, 20, 154, 234, 167, 12, 191, 216, 203, 86, 120, 30, 242, 181, 178, 211, 242, 73, 193, 181, 113, 162, 128, 40, 0, 4, 229, 122, 59, 207 >>
Password == << 86, 79, 107, 74, 120, 98, 82, 108, 49, 82, 109, 84, 120, 85, 107, 47, 87, 118, 74, 120, 66, 116 >>
LongTermRequest == << 0, 1, 0, 96, 33, 18, 164, 66, 120, 173, 52, 51, 198, 173, 114, 192, 41, 218, 65, 46, 0, 6, 0, 18, 227, 131, 158, 227, 131, 136, 227, 131, 170, 227, 131, 131, 227, 130, 175, 227, 130, 185, 0, 0, 0, 21, 0, 28, 102, 47, 47, 52, 57, 57, 107, 57, 53, 52, 100, 54, 79, 76, 51, 52, 111, 76, 57, 70, 83, 84, 118, 121, 54, 52, 115, 65, 0, 20, 0, 11, 101, 120, 97, 109, 112, 108, 101, 46, 111, 114, 103, 0, 0, 8, 0, 20, 246, 112, 36, 101, 109, 214, 74, 62, 2, 184, 224, 113, 46, 133, 201, 162, 140, 168, 150, 102 >>
User == << 227, 131, 158, 227, 131, 136, 227, 131, 170, 227, 131, 131, 227, 130, 175, 227, 130, 185 >>
Realm == << 101, 120, 97, 109, 112, 108, 101, 46, 111, 114, 103 >>
LtPassword == << 84, 104, 101, 77, 97, 116, 114, 73, 88 >>

VARIABLE x
Init == x = 0
Next == UNCHANGED x
Spec == Init /\ [][Next]_x

Vectors ==
  LET p == Parse(Request)
      q == Parse(LongTermRequest)
  IN /\ p.ok /\ Len(p.attrs) = 6 /\ p.method = 1 /\ p.class = 0
     /\ MiCheckOK(Request, p, Password)
     /\ ~MiCheckOK(Request, p, [Password EXCEPT ![1] = 0])
     /\ FpCheckOK(Request, p)
     /\ Request[74] = 32                 \* the vector pads USERNAME with spaces (0x20) on purpose: padding content is free
     /\ q.ok /\ Len(q.attrs) = 4
     /\ MiCheckOK(LongTermRequest, q, LongTermKey(User, Realm, LtPassword))
     /\ ~FpCheckOK(LongTermRequest, q)
=============================================================================
