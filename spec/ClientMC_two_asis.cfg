SPECIFICATION Spec
CONSTANTS
  s1 = s1
  s2 = s2
  o1 = o1
  o2 = o2
  w1 = w1
  w2 = w2
  None = None
  Starts = {s1, s2}
  IdOf <- IdOfDef
  Objs = {o1, o2}
  MaxAttempts = 1
  MaxClock = 3
  FailBudget = 1
  RespBudget = 1
  JunkBudget = 0
  CloseConn = TRUE
  HasFallback = TRUE
  AllowClose = TRUE
  AllowDo = TRUE
  AllowIndicate = TRUE
  WObjs = {w1, w2}
  DupMode = FALSE
  DupStart = s2
  PoolOnError = FALSE
  IdleCollects = 0
  RtoChanges = 0
  DeadlineTicks = FALSE
  OneAtATime = FALSE
  SafePool = TRUE
  Strict = FALSE
VIEW View
INVARIANT TypeOK
INVARIANT AtMostOnce
INVARIANT WritesBounded
INVARIANT RoutedByID
INVARIANT ConnOwnership
INVARIANT GoroutinesGone
PROPERTY ClosedStartsRefused
PROPERTY RtoSnapshot
CHECK_DEADLOCK FALSE
