"""C19 - message type encoding is the RFC 5389 figure-3 layout and a bijection (complete domain)."""
import vlib


def run(ctx):
    # GEN / model: the layout's own round-trip properties on the complete domain
    ctx.tlc_model("C19Model", workers=1, heap_gb=3, name="figure-3 layout, complete domain")
    # DRIVE: dump the complete Value()/ReadValue() tables of the real code
    h = ctx.harness("stun")
    trace = ctx.path("c19.ndjson")
    ctx.drive(h, "TestVerifC19", env={"VERIF_TRACE_OUT": trace})
    # VALIDATE
    files = [trace]  # one file: the completeness requirement is about the whole dump
    ctx.validate("C19Trace", files)
    ctx.add_samples(trace, 3)
    ctx.extra["entries_compared"] = 16384 + 65536
    ctx.assumptions += ["StunType.Layout is a faithful reading of RFC 5389 figure 3",
                        "TLC evaluates the TLA+ operators correctly"]
    return vlib.finish(ctx, traces_validated=len(files), exhaustive=True,
                       rule="complete domain: 4096x4 (method,class) pairs and 65536 wire values, each compared with the figure-3 position table")
