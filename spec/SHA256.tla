------------------------------- MODULE SHA256 -------------------------------
(***************************************************************************)
(* SHA-256, transcribed from FIPS 180-4.  Sha256(b) maps a byte string to  *)
(* its 32-byte digest.  Words are the <<hi16, lo16>> pairs of Bytes; the   *)
(* word index t of the standard (0-based) is position t + 1 of a TLA+      *)
(* sequence.  Helper names carry the prefix S256_.                         *)
(***************************************************************************)
EXTENDS Bytes

\* s5.3.3 initial hash value H(0)
S256_H0 ==
<< <<27145, 58983>>, <<47975, 44677>>, <<15470, 62322>>, <<42319, 62778>>,  \* 6a09e667 bb67ae85 3c6ef372 a54ff53a
   <<20750, 21119>>, <<39685, 26764>>, <<8067, 55723>>, <<23520, 52505>> >> \* 510e527f 9b05688c 1f83d9ab 5be0cd19

\* s4.2.2 constants K_0..K_63 (428a2f98 71374491 ... c67178f2)
S256_K ==
<< <<17034, 12184>>, <<28983, 17553>>, <<46528, 64463>>, <<59829, 56229>>,
   <<14678, 49755>>, <<23025, 4593>>, <<37439, 33444>>, <<43804, 24277>>,
   <<55303, 43672>>, <<4739, 23297>>, <<9265, 34238>>, <<21772, 32195>>,
   <<29374, 23924>>, <<32990, 45566>>, <<39900, 1703>>, <<49563, 61812>>,
   <<58523, 27073>>, <<61374, 18310>>, <<4033, 40390>>, <<9228, 41420>>,
   <<11753, 11375>>, <<19060, 33962>>, <<23728, 43484>>, <<30457, 35034>>,
   <<38974, 20818>>, <<43057, 50797>>, <<45059, 10184>>, <<48985, 32711>>,
   <<50912, 3059>>, <<54695, 37191>>, <<1738, 25425>>, <<5161, 10599>>,
   <<10167, 2693>>, <<11803, 8504>>, <<19756, 28156>>, <<21304, 3347>>,
   <<25866, 29524>>, <<30314, 2747>>, <<33218, 51502>>, <<37490, 11397>>,
   <<41663, 59553>>, <<43034, 26187>>, <<49739, 35696>>, <<51052, 20899>>,
   <<53650, 59417>>, <<54937, 1572>>, <<62478, 13701>>, <<4202, 41072>>,
   <<6564, 49430>>, <<7735, 27656>>, <<10056, 30540>>, <<13488, 48309>>,
   <<14620, 3251>>, <<20184, 43594>>, <<23452, 51791>>, <<26670, 28659>>,
   <<29839, 33518>>, <<30885, 25455>>, <<33992, 30740>>, <<36039, 520>>,
   <<37054, 65530>>, <<42064, 27883>>, <<48889, 41975>>, <<50801, 30962>> >>

\* s2.2.2 ROTR^n(x) as two 16-bit halves, for n in 1..15: p = 2^n, q = 2^(16-n)
S256_RotrHi(x, p, q) == ((x[2] % p) * q) + (x[1] \div p)
S256_RotrLo(x, p, q) == ((x[1] % p) * q) + (x[2] \div p)

\* s4.1.2 functions (4.2)-(4.7), each half computed separately
S256_Ch(x, y, z) ==
  << (x[1] & y[1]) ^^ ((65535 - x[1]) & z[1]),
     (x[2] & y[2]) ^^ ((65535 - x[2]) & z[2]) >>
S256_Maj(x, y, z) ==
  << ((x[1] & y[1]) ^^ (x[1] & z[1])) ^^ (y[1] & z[1]),
     ((x[2] & y[2]) ^^ (x[2] & z[2])) ^^ (y[2] & z[2]) >>

\* Sigma0(x) = ROTR2(x) ^ ROTR13(x) ^ ROTR22(x);  ROTR22 = ROTR6 with the halves swapped
S256_BSig0(x) ==
  << (S256_RotrHi(x, 4, 16384) ^^ S256_RotrHi(x, 8192, 8)) ^^ S256_RotrLo(x, 64, 1024),
     (S256_RotrLo(x, 4, 16384) ^^ S256_RotrLo(x, 8192, 8)) ^^ S256_RotrHi(x, 64, 1024) >>
\* Sigma1(x) = ROTR6(x) ^ ROTR11(x) ^ ROTR25(x);  ROTR25 = ROTR9 with the halves swapped
S256_BSig1(x) ==
  << (S256_RotrHi(x, 64, 1024) ^^ S256_RotrHi(x, 2048, 32)) ^^ S256_RotrLo(x, 512, 128),
     (S256_RotrLo(x, 64, 1024) ^^ S256_RotrLo(x, 2048, 32)) ^^ S256_RotrHi(x, 512, 128) >>
\* sigma0(x) = ROTR7(x) ^ ROTR18(x) ^ SHR3(x);  ROTR18 = ROTR2 with the halves swapped
S256_SSig0(x) ==
  << (S256_RotrHi(x, 128, 512) ^^ S256_RotrLo(x, 4, 16384)) ^^ (x[1] \div 8),
     (S256_RotrLo(x, 128, 512) ^^ S256_RotrHi(x, 4, 16384)) ^^ S256_RotrLo(x, 8, 8192) >>
\* sigma1(x) = ROTR17(x) ^ ROTR19(x) ^ SHR10(x);  ROTR17/19 = ROTR1/3 with the halves swapped
S256_SSig1(x) ==
  << (S256_RotrLo(x, 2, 32768) ^^ S256_RotrLo(x, 8, 8192)) ^^ (x[1] \div 1024),
     (S256_RotrHi(x, 2, 32768) ^^ S256_RotrHi(x, 8, 8192)) ^^ S256_RotrLo(x, 1024, 64) >>

\* sums modulo 2^32 (s3.2 item 3)
S256_Add4(a, b, c, d) ==
  LET lo == a[2] + b[2] + c[2] + d[2]
      hi == a[1] + b[1] + c[1] + d[1] + (lo \div 65536)
  IN << hi % 65536, lo % 65536 >>
S256_Add5(a, b, c, d, e) ==
  LET lo == a[2] + b[2] + c[2] + d[2] + e[2]
      hi == a[1] + b[1] + c[1] + d[1] + e[1] + (lo \div 65536)
  IN << hi % 65536, lo % 65536 >>

---------------------------------------------------------------------------
(* s5.1.1 padding: 0x80, k zero bytes, 64-bit big-endian bit length l      *)

S256_BitLen(n) == << << 0, n \div 536870912 >>,
                     << (n % 536870912) \div 8192, (n % 8192) * 8 >> >>

S256_Pad(b) ==
  LET n  == Len(b)
      k  == (119 - (n % 64)) % 64          \* n + 1 + k = 56 (mod 64)
      bl == S256_BitLen(n)
  IN b \o <<128>> \o Zeros(k) \o U32Bytes(bl[1]) \o U32Bytes(bl[2])

---------------------------------------------------------------------------
(* s6.2.2 step 1: message schedule W_0..W_63 of the block at offset off    *)
(*   W_t = sigma1(W_{t-2}) + W_{t-7} + sigma0(W_{t-15}) + W_{t-16}         *)

S256_From16 == [i \in 1..48 |-> 16 + i]    \* t + 1 for t in 16..63
S256_Rounds == [i \in 1..64 |-> i]         \* t + 1 for t in 0..63

S256_Extend(w, j) ==                       \* j = t + 1 = Len(w) + 1
  Append(w, S256_Add4(S256_SSig1(w[j - 2]), w[j - 7], S256_SSig0(w[j - 15]), w[j - 16]))

S256_Schedule(p, off) ==
  FoldLeft(S256_Extend,
           << U32At(p, off),      U32At(p, off + 4),  U32At(p, off + 8),  U32At(p, off + 12),
              U32At(p, off + 16), U32At(p, off + 20), U32At(p, off + 24), U32At(p, off + 28),
              U32At(p, off + 32), U32At(p, off + 36), U32At(p, off + 40), U32At(p, off + 44),
              U32At(p, off + 48), U32At(p, off + 52), U32At(p, off + 56), U32At(p, off + 60) >>,
           S256_From16)

(* s6.2.2 step 3: one round on v = <<a, b, c, d, e, f, g, h>>              *)
(*   T1 = h + Sigma1(e) + Ch(e, f, g) + K_t + W_t                          *)
(*   T2 = Sigma0(a) + Maj(a, b, c)                                         *)
(*   h = g, g = f, f = e, e = d + T1, d = c, c = b, b = a, a = T1 + T2     *)
S256_Step(v, k, w) ==
  LET t1 == S256_Add5(v[8], S256_BSig1(v[5]), S256_Ch(v[5], v[6], v[7]), k, w)
      t2 == Add32(S256_BSig0(v[1]), S256_Maj(v[1], v[2], v[3]))
  IN << Add32(t1, t2), v[1], v[2], v[3], Add32(v[4], t1), v[5], v[6], v[7] >>

(* s6.2.2 steps 1-4 for the 64-byte block of p at 0-based offset off       *)
S256_Block(h, p, off) ==
  LET w == S256_Schedule(p, off)
      v == FoldLeft(LAMBDA vv, j : S256_Step(vv, S256_K[j], w[j]), h, S256_Rounds)
  IN << Add32(h[1], v[1]), Add32(h[2], v[2]), Add32(h[3], v[3]), Add32(h[4], v[4]),
        Add32(h[5], v[5]), Add32(h[6], v[6]), Add32(h[7], v[7]), Add32(h[8], v[8]) >>

---------------------------------------------------------------------------
(* Incremental form: a state is the eight-word hash value.  Sha256Blocks   *)
(* absorbs a byte string whose length is a multiple of 64.                 *)

Sha256State0 == S256_H0

Sha256Blocks(h, p) ==
  FoldLeft(LAMBDA hh, off : S256_Block(hh, p, off), h,
           [i \in 1..(Len(p) \div 64) |-> 64 * (i - 1)])

Sha256Digest(h) ==
  U32Bytes(h[1]) \o U32Bytes(h[2]) \o U32Bytes(h[3]) \o U32Bytes(h[4]) \o
  U32Bytes(h[5]) \o U32Bytes(h[6]) \o U32Bytes(h[7]) \o U32Bytes(h[8])

\* s6.2: the SHA-256 message digest of the byte string b
Sha256(b) == Sha256Digest(Sha256Blocks(S256_H0, S256_Pad(b)))

=============================================================================
