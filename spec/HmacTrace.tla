----------------------------- MODULE HmacTrace -----------------------------
(***************************************************************************)
(* Trace validation for C18: every digest produced through the pooled HMAC *)
(* API must be RFC 2104 HMAC (computed here from the transcribed SHA-1 /   *)
(* SHA-256) of the key of the current acquisition and the concatenation of *)
(* the chunks written since the acquisition or the last Reset.             *)
(* Lines carry a trace id "tr"; traces of different goroutines are         *)
(* independent (handles are per trace), lines of one trace are in order.   *)
(***************************************************************************)
EXTENDS TraceBase, HMAC

VARIABLES l, hs     \* hs: handle -> [alg, key, data] of the current trace

Init == RegInit /\ l = 1 /\ hs = << >>

Ref(alg, key, data) == IF alg = "sha256" THEN HmacSha256(key, data) ELSE HmacSha1(key, data)

Held(h) == h \in DOMAIN hs

Step(n, e) ==
  CASE e.k = "new" -> hs' = << >>
    [] e.k = "race" -> Reject(n, "data-race", e.report) /\ UNCHANGED hs
    [] e.k = "acq" ->
         /\ Require(~Held(e.h), n, "trace-format", "handle acquired twice")
         /\ hs' = [x \in DOMAIN hs \cup {e.h} |-> IF x = e.h THEN [alg |-> e.alg, key |-> e.key, data |-> <<>>] ELSE hs[x]]
    [] e.k = "write" ->
         /\ Require(Held(e.h) /\ e.n = Len(e.data) /\ ~e.err, n, "write-result", [n |-> e.n])
         /\ hs' = IF Held(e.h) THEN [hs EXCEPT ![e.h].data = @ \o e.data] ELSE hs
    [] e.k = "sum" ->
         /\ Held(e.h) =>
              LET want == Ref(hs[e.h].alg, hs[e.h].key, hs[e.h].data) IN
              /\ Require(e.digest = want, n, "digest",
                         [alg |-> hs[e.h].alg, keylen |-> Len(hs[e.h].key), datalen |-> Len(hs[e.h].data),
                          got |-> e.digest, want |-> want])
              /\ Require(e.prefix_kept, n, "sum-clobbered-prefix", <<>>)
              /\ Require(e.size = Len(want) /\ e.block = 64, n, "size", [size |-> e.size, block |-> e.block])
         /\ UNCHANGED hs
    [] e.k = "reset" -> hs' = IF Held(e.h) THEN [hs EXCEPT ![e.h].data = <<>>] ELSE hs
    [] e.k = "put" -> hs' = [x \in DOMAIN hs \ {e.h} |-> hs[x]]
    [] OTHER -> Reject(n, "unknown-line", e.k) /\ UNCHANGED hs

Next == /\ l <= NLines
        /\ Step(l, Trace[l])
        /\ Consumed(l)
        /\ l' = l + 1
Spec == Init /\ [][Next]_<< l, hs >>
=============================================================================
