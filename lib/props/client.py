"""Shared GEN/DRIVE/VALIDATE for the Client properties C10, C11, C12, C15."""
import json
import os
import random
import re
import vlib
from props.c13 import edges_from, transition_cover


def schedules_from_model(ctx, cfg, name, maxattempts, closeconn=True, fallback=True, sample=None, workers=None):
    r = ctx.tlc_model("ClientMC", cfg, workers=workers or vlib.NCPU, heap_gb=20, timeout=3000, name=name)
    edges = edges_from(r["out"])
    if not edges:
        raise vlib.Inconclusive("no edges exported by ClientMC/" + cfg)
    seqs, nstates = transition_cover(edges)
    if sample is not None and len(seqs) > sample:
        rnd = random.Random(ctx.seed)
        seqs = rnd.sample(seqs, sample)
    out = [{"steps": s, "maxattempts": maxattempts, "closeconn": closeconn, "fallback": fallback} for s in seqs]
    return out, nstates, len(edges)


def schedules_from_simulation(ctx, n, maxattempts=7, cfg="ClientSim.cfg"):
    """Random behaviours of a Client model (tlc -simulate) as replay schedules."""
    r = ctx.tlc("ClientSim", cfg, workers=1, heap_gb=6, timeout=1200,
                extra=("-simulate", "num=%d" % n, "-depth", "62", "-seed", str(ctx.seed)))
    out = []
    for ln in r["out"].splitlines():
        if ln.startswith('"HIST '):
            steps = json.loads(json.loads(ln)[5:])
            if steps:
                out.append({"steps": steps, "maxattempts": maxattempts, "closeconn": True, "fallback": True})
    m = re.findall(r"The number of states generated: (\d+)", r["out"])
    if not out:
        raise vlib.Inconclusive("simulation produced no behaviours:\n" + r["out"][-1500:])
    return out, int(m[-1]) if m else 0


MODES = {
    "C10": "every started transaction completes exactly once",
    "C11": "retransmissions are bit-identical, bounded and on schedule",
    "C12": "responses reach the transaction with the same id and nothing else",
    "C15": "Close is final, leak-free and honours connection ownership",
}


LIBPANIC = re.compile(r"panic: [^\n]*\n[\s\S]{0,200}?goroutine \d+ \[running\]:\n([\s\S]{0,1500})")


def is_library_panic(pm):
    """The frame that panicked (the first one outside the Go runtime) is in the library's own source."""
    ls = pm.group(1).split("\n\n")[0].split("\n")
    for k in range(0, len(ls) - 1, 2):
        fn, loc = ls[k], ls[k + 1]
        if "/src/runtime/" in loc or fn.startswith("panic(") or fn.startswith("runtime."):
            continue
        return fn.startswith("github.com/pion/stun/v3") and "_test." not in fn and "zz_verif" not in loc
    return False


def run(ctx, mode):
    rin = ctx.replay_input()
    vec = ctx.path("client_vectors.ndjson")
    stats = {}
    if rin is not None:
        with open(vec, "w") as fh:
            fh.write(json.dumps(rin) + "\n")
        scheds = [rin]
    else:
        quick = ctx.quick()
        # design level: the robust invariants on the as-is interleavings, all properties under the strict environment
        ctx.tlc_model("ClientMC", "ClientMC_one_strict.cfg", workers=vlib.NCPU, heap_gb=16, timeout=2400,
                      name="Client, 1 start, all properties (environment without the K2/K3/K4 windows)")
        if mode == "C10":
            # the model must stay sensitive to D8: with the wait handler pooled again after a failed Start
            # (PoolOnError = TRUE, the code before the repair) TLC has to find the panic in HandleEvent
            r = ctx.tlc_model("ClientMC", "ClientMC_d8.cfg", workers=min(8, vlib.NCPU), heap_gb=8, timeout=900, expect_violation=True,
                              name="Client before the D8 repair (wait handler pooled after a failed Start): NoPanic must be violated")
            if "Invariant NoPanic is violated" not in r["out"]:
                raise vlib.Inconclusive("ClientMC_d8.cfg: TLC no longer finds the D8 panic on the pre-repair model")
        if not quick:
            if mode == "C10":
                ctx.tlc_model("ClientMC", "ClientMC_d8fixed.cfg", workers=vlib.NCPU, heap_gb=24, timeout=3000,
                              name="Client, 2 starts, environment with the K4 window, repaired Do: NoPanic, DoWaits")
            ctx.tlc_model("ClientMC", "ClientMC_two_strict.cfg", workers=vlib.NCPU, heap_gb=24, timeout=3000,
                          name="Client, 2 starts, all properties (strict environment)")
            ctx.tlc_model("ClientMC", "ClientMC_two_asis.cfg", workers=vlib.NCPU, heap_gb=24, timeout=3000,
                          name="Client, 2 starts, robust invariants on every interleaving")
            ctx.tlc_model("ClientMC", "ClientMC_two_deep.cfg", workers=vlib.NCPU, heap_gb=30, timeout=3000,
                          name="Client, 2 starts (Start/Do/Indicate, one pooled wait handler), 2 retransmissions, 2 responses, clock 0..4, all properties (strict environment)")
            if mode == "C10":
                # the largest exhaustive run (96 M distinct states, 350 M transitions, about 20 min): once per thorough round is enough,
                # it checks the invariants of all four client properties
                ctx.tlc_model("ClientMC", "ClientMC_two_deep2.cfg", workers=vlib.NCPU, heap_gb=40, timeout=5400,
                              name="Client, 2 starts (Start/Do, one pooled wait handler), 2 retransmissions, 2 responses, 2 failing writes, 1 junk datagram, clock 0..4, all properties (strict environment)")
        scheds = []
        for cfg, name, ma, cc, fb, smp in [
                ("ClientMC_cover.cfg", "transition cover source: 1 start, default retransmission, 1 failing write, 1 response", 7, True, True, 4000 if quick else None),
                ("ClientMC_cover_deep.cfg", "transition cover source: the whole retransmission chain (7 retransmissions, final timeout), a failing write at any attempt", 7, True, True, 3000 if quick else None),
                ("ClientMC_cover_rto.cfg", "transition cover source: SetRTO before/after Start, unit clock steps, fruitless Collect calls between deadlines", 7, True, True, 1500 if quick else None),
                ("ClientMC_cover_noretx.cfg", "transition cover source: WithNoRetransmit, duplicate response, junk datagram", 0, True, True, 2500 if quick else None),
                ("ClientMC_cover_noconnclose.cfg", "transition cover source: WithNoConnClose, no fallback handler", 7, False, False, 1500 if quick else None)]:
            s, ns, ne = schedules_from_model(ctx, cfg, name, ma, closeconn=cc, fallback=fb, sample=smp)
            stats[cfg] = {"states": ns, "edges": ne, "replayed": len(s)}
            scheds += s
        sim, nsimstates = schedules_from_simulation(ctx, 1500 if quick else 20000)
        stats["ClientSim.cfg"] = {"behaviours": len(sim), "states_visited": nsimstates}
        scheds += sim
        # history-dependent orders (SetRTO before/after the snapshot, before/after a retransmission; fruitless
        # Collect calls between deadlines) are not distinguished by states: random behaviours supply them
        simr, nsr = schedules_from_simulation(ctx, (3000 if mode == "C11" else 500) if quick else 30000, cfg="ClientSimRto.cfg")
        stats["ClientSimRto.cfg"] = {"behaviours": len(simr), "states_visited": nsr}
        scheds += simr
        # a caller that uses the transaction id of the other caller's transaction: an indication, or a Start / Do
        # that is refused because the id is registered (ClientSimDup.cfg: IdOf maps both callers to one id)
        simd, nsd = schedules_from_simulation(ctx, 3000 if quick else 30000, cfg="ClientSimDup.cfg")
        for s in simd:
            s["sameid"] = True
        stats["ClientSimDup.cfg"] = {"behaviours": len(simd), "states_visited": nsd,
                                     "with_refused_duplicate": sum(1 for s in simd if any(st.get("dup") for st in s["steps"]))}
        scheds += simd
        sizes = [20, 20, 20, 1500, 1501, 2048, 2049, 4096, 65535]
        rnd = random.Random(ctx.seed)
        for i, s in enumerate(scheds):
            s["msgsize"] = (65535 if i % (60 if ctx.quick() else 600) == 7 else sizes[rnd.randrange(len(sizes) - 1)]) if mode == "C11" else 20
            # the agent's or the connection's Close reports an error in a share of the schedules
            s["closefault"] = ["", "", "conn", "agent"][i % 4] if mode == "C15" else ""
        with open(vec, "w") as fh:
            for s in scheds:
                fh.write(json.dumps(s) + "\n")
    vlib.log("GEN %d schedules" % len(scheds))
    h = ctx.harness("stun")
    trace = ctx.path("client_%s.ndjson" % mode)
    # a panic in a goroutine of the library takes the driver process down: the behaviour recorded so far is kept
    # (the trace is flushed line by line), the panic becomes an event of the schedule it happened in, and a new
    # process goes on with the next schedule
    base, crashes = 0, 0
    atrace = ctx.path("client_agent_%s.ndjson" % mode)
    open(trace, "w").close()
    while True:
        part = ctx.path("client_part.ndjson")
        rc, out = ctx.drive(h, "TestVerifClientReplay", env={"VERIF_TRACE_OUT": part, "VERIF_VECTORS": vec, "VERIF_TRACE_SYNC": 1,
                                                            "VERIF_TR_BASE": base, "VERIF_AGENT_TRACE_OUT": atrace}, timeout=1500 if ctx.quick() else 6000, ok_rc=(0, 1, 2))
        with open(part) as fh:
            lines = [ln for ln in fh if ln.endswith("\n")]
        last = 0
        for ln in reversed(lines):
            try:
                last = json.loads(ln)["tr"]
                break
            except (ValueError, KeyError):
                continue
        if rc != 0:
            pm = LIBPANIC.search(out)
            if not (pm and is_library_panic(pm)) or last <= base:
                raise vlib.Inconclusive("driver TestVerifClientReplay failed rc=%d:\n%s" % (rc, out[-3000:]))
            lines.append(json.dumps({"k": "libpanic", "tr": last, "report": pm.group(0)[:2500]}) + "\n")
            vlib.log("library panic in schedule %d: %s" % (last, pm.group(0).split("\n")[0]))
        with open(trace, "a") as fh:
            fh.writelines(lines)
        if rc == 0:
            break
        base, crashes = last, crashes + 1
        if crashes >= 25:
            ctx.notes.append("replay stopped after 25 library panics at schedule %d of %d" % (last, len(scheds)))
            break
    files = ctx.shard(trace, vlib.NCPU * 2, group_key="tr")
    ctx.validate("ClientTrace", files, env={"VERIF_MODE": mode}, heap_gb=4, timeout=2400)
    ctx.add_samples(trace, 5, maxlen=400)
    # I layer: the real Agent's own history inside the replayed client runs (calls, results, events - sequential in a
    # gated replay) against AgentCore; a mismatch is model drift (the Agent has its own checks, C13/C14)
    if os.path.exists(atrace) and os.path.getsize(atrace) > 0:
        afiles = ctx.shard(atrace, vlib.NCPU, group_key="tr", prefix="agent")
        ctx.validate("AgentTrace", afiles, env={"VERIF_AGENT_LAYER": "I"}, heap_gb=3, timeout=1800)
    nfree = 0
    if rin is None:
        # free-running goroutines (the library's own ticker collector, lossy/reordering responder, Close raced
        # with Start/Do, up to 500 concurrent transactions) under the race detector, judged by the same monitors
        hr = ctx.harness("stun", race=True)
        ftrace = ctx.path("client_free_%s.ndjson" % mode)
        nfree = 10 if ctx.quick() else 80
        rc, out = ctx.drive(hr, "TestVerifClientFree", env={"VERIF_TRACE_OUT": ftrace, "VERIF_FREE_RUNS": nfree, "VERIF_FREE_CHURN": 0 if ctx.quick() else 3000,
                                                         "VERIF_CLOSE_STORM": (0 if mode != "C15" else 400 if ctx.quick() else 4000)},
                            timeout=1800, ok_rc=(0, 1, 2, 66))
        races = [r for r in re.findall(r"WARNING: DATA RACE[\s\S]{0,4000}?==================", out)]
        if races:
            with open(ftrace, "a") as fh:
                fh.write(json.dumps({"k": "cfg", "tr": 999999, "maxattempts": 7, "rto": 1, "closeconn": True, "fallback": True}) + "\n")
                fh.write(json.dumps({"k": "race", "tr": 999999, "report": races[0][:3000]}) + "\n")
        elif rc != 0:
            # a panic inside the library (not in the harness) is the library's doing
            pm = LIBPANIC.search(out)
            if pm and is_library_panic(pm):
                with open(ftrace, "a") as fh:
                    fh.write(json.dumps({"k": "cfg", "tr": 999998, "maxattempts": 7, "rto": 1, "closeconn": True, "fallback": True}) + "\n")
                    fh.write(json.dumps({"k": "libpanic", "tr": 999998, "report": pm.group(0)[:2500]}) + "\n")
            else:
                raise vlib.Inconclusive("free-running driver failed:\n" + out[-2500:])
        ffiles = ctx.shard(ftrace, vlib.NCPU, group_key="tr", prefix="free")
        ctx.validate("ClientTrace", ffiles, env={"VERIF_MODE": mode}, heap_gb=4, timeout=2400)

    def input_of(rj):
        tl = rj.get("trace_line") or {}
        tr = tl.get("tr")
        if tr and 1 <= tr <= len(scheds):
            return scheds[tr - 1]
        return {}
    ctx.input_of = input_of
    ctx.extra.update({"schedules_replayed": len(scheds), "cover": stats, "mode": mode, "free_running_runs": nfree})
    ctx.assumptions += ["Client.tla describes client.go with the D5 repair at the granularity of its calls into injected interfaces",
                        "a replayed goroutine is the only runnable one: every other goroutine of the client is parked at a gate",
                        "environment: a response exists only for a request that reached the wire; concurrently started ids are distinct"]
    return vlib.finish(ctx, traces_validated=len(scheds),
                       rule="transition cover of the gate-level Client model (every reachable state x action of three configurations) replayed on a real Client with a delegating agent, scripted connection, virtual clock and scripted collector; " + MODES[mode])
