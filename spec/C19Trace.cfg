SPECIFICATION Spec
INVARIANT Complete
POSTCONDITION WriteOut
CHECK_DEADLOCK FALSE
