//go:build verif

package stun_test

import (
	"bufio"
	"encoding/json"
	"fmt"
	"math/rand"
	"net"
	"os"
	"testing"

	"github.com/pion/stun/v3"
)

// ---- C03 driver: building histories on a real Message, full state recorded around every step ----------

type msgOp struct {
	Op   string `json:"op"`
	T    int    `json:"t,omitempty"`
	N    int    `json:"n,omitempty"`
	M    int    `json:"m,omitempty"`
	C    int    `json:"c,omitempty"`
	K    int    `json:"k,omitempty"`
	Data []int  `json:"data,omitempty"` // decode input / add value / tid / key / text / ip / reason
	Port int    `json:"port,omitempty"`
	Code int    `json:"code,omitempty"`
	List []int  `json:"list,omitempty"`
}

type msgVector struct {
	Ops     []msgOp `json:"ops"`
	Storage int     `json:"storage"`
	All     bool    `json:"all"`
}

type msgState struct {
	Method  int           `json:"method"`
	Class   int           `json:"class"`
	Length  int           `json:"length"`
	TID     []int         `json:"tid"`
	Attrs   []interface{} `json:"attrs"` // [type, len, offset, [value bytes]]
	Raw     []int         `json:"raw"`
	Spare   []int         `json:"spare"`
	SpareOK bool          `json:"spare_ok"`
	Cap     int           `json:"cap"`
	Redec   bool          `json:"redec"` // library decodes Raw
	Equal   bool          `json:"equal"` // m.Equal(decoded copy)
	EqRev   bool          `json:"eqrev"` // decoded copy .Equal(m)
}

func stateOf(m *stun.Message) msgState {
	s := msgState{Method: int(m.Type.Method), Class: int(m.Type.Class), Length: int(m.Length),
		TID: ints(m.TransactionID[:]), Raw: ints(m.Raw), Cap: cap(m.Raw), Attrs: []interface{}{}}
	for _, a := range m.Attributes {
		s.Attrs = append(s.Attrs, []interface{}{int(a.Type), int(a.Length), valueOffset(m.Raw, a.Value), ints(a.Value)})
	}
	if cap(m.Raw)-len(m.Raw) <= 512 {
		s.Spare = ints(m.Raw[len(m.Raw):cap(m.Raw)])
		s.SpareOK = true
	} else {
		s.Spare = []int{}
	}
	dec := new(stun.Message)
	if err := stun.Decode(m.Raw, dec); err == nil {
		s.Redec = true
		s.Equal = m.Equal(dec)
		s.EqRev = dec.Equal(m)
	}
	return s
}

var msgKey = []byte{5}

func applyMsgOp(m *stun.Message, op msgOp) (perr string) {
	defer func() {
		if r := recover(); r != nil {
			perr = fmt.Sprint(r)
		}
	}()
	switch op.Op {
	case "build":
		if err := m.Build(); err != nil {
			return "err:" + err.Error()
		}
	case "writeheader":
		m.WriteHeader()
	case "encode":
		m.Encode()
	case "decode":
		if err := stun.Decode(unints(op.Data), m); err != nil {
			return "err:" + err.Error()
		}
	case "write":
		if _, err := m.Write(unints(op.Data)); err != nil {
			return "err:" + err.Error()
		}
	case "add":
		m.Add(stun.AttrType(op.T), unints(op.Data))
	case "settype":
		m.SetType(stun.NewType(stun.Method(op.M), stun.MessageClass(op.C)))
	case "settid":
		var tid [stun.TransactionIDSize]byte
		copy(tid[:], unints(op.Data))
		if err := stun.NewTransactionIDSetter(tid).AddTo(m); err != nil {
			return "err:" + err.Error()
		}
	case "integrity":
		if err := stun.MessageIntegrity(unints(op.Data)).AddTo(m); err != nil {
			return "err:" + err.Error()
		}
	case "fingerprint":
		if err := stun.Fingerprint.AddTo(m); err != nil {
			return "err:" + err.Error()
		}
	case "username":
		if err := stun.Username(unints(op.Data)).AddTo(m); err != nil {
			return "err:" + err.Error()
		}
	case "xoraddr":
		if err := (stun.XORMappedAddress{IP: net.IP(unints(op.Data)), Port: op.Port}).AddTo(m); err != nil {
			return "err:" + err.Error()
		}
	case "mapped":
		if err := (&stun.MappedAddress{IP: net.IP(unints(op.Data)), Port: op.Port}).AddTo(m); err != nil {
			return "err:" + err.Error()
		}
	case "errorcode":
		if err := (stun.ErrorCodeAttribute{Code: stun.ErrorCode(op.Code), Reason: unints(op.Data)}).AddTo(m); err != nil {
			return "err:" + err.Error()
		}
	case "unknown":
		ua := make(stun.UnknownAttributes, len(op.List))
		for i, t := range op.List {
			ua[i] = stun.AttrType(t)
		}
		if err := ua.AddTo(m); err != nil {
			return "err:" + err.Error()
		}
	case "writelength":
		m.WriteLength()
	case "writetype":
		m.WriteType()
	default:
		panic("op " + op.Op)
	}
	return ""
}

func freshMessage(storage int) *stun.Message {
	buf := make([]byte, storage)
	for i := range buf {
		buf[i] = 0xA5
	}
	m := new(stun.Message)
	if storage > 0 {
		m.Raw = buf[:0]
	}
	return m
}

func runMsgVector(tw *traceWriter, tr int, v msgVector) {
	m := freshMessage(v.Storage)
	for i, op := range v.Ops {
		last := i == len(v.Ops)-1
		if !(last || v.All) {
			if e := applyMsgOp(m, op); e != "" {
				return
			}
			continue
		}
		pre := stateOf(m)
		e := applyMsgOp(m, op)
		refused := len(e) >= 4 && e[:4] == "err:" // the operation returned an error (a refused setter), no panic
		pe := e
		if refused {
			pe = ""
		}
		tw.emit(map[string]interface{}{"k": "op", "tr": tr, "i": i, "op": op, "perr": pe, "refused": refused, "pre": pre, "post": stateOf(m)})
		if e != "" {
			return
		}
	}
}

func TestVerifMsg(t *testing.T) {
	tw := newTrace(t)
	defer tw.close()
	tr := 0
	if p := os.Getenv("VERIF_VECTORS"); p != "" {
		f, err := os.Open(p)
		if err != nil {
			t.Fatal(err)
		}
		sc := bufio.NewScanner(f)
		sc.Buffer(make([]byte, 1<<20), 1<<26)
		for sc.Scan() {
			var v msgVector
			if err := json.Unmarshal(sc.Bytes(), &v); err != nil {
				t.Fatal(err)
			}
			tr++
			runMsgVector(tw, tr, v)
		}
		f.Close()
	}
	// seeded long random histories: values up to ~3000 bytes (every residue mod 4), any method/class/TID
	r := newRand(3)
	for s := 0; s < envInt("VERIF_RANDOM_SEQS", 0); s++ {
		tr++
		v := msgVector{Storage: []int{0, 48, 200, 4000}[r.Intn(4)], All: true}
		size := 0
		n := 3 + r.Intn(12)
		// start class
		switch r.Intn(3) {
		case 0:
			v.Ops = append(v.Ops, msgOp{Op: "build"})
		case 1:
			v.Ops = append(v.Ops, msgOp{Op: "writeheader"})
		case 2:
			v.Ops = append(v.Ops, msgOp{Op: "decode", Data: ints(randomValidMessage(r))})
			size = len(v.Ops[0].Data) - 20
		}
		for i := 0; i < n; i++ {
			switch x := r.Intn(20); {
			case x < 7:
				l := r.Intn(24)
				if r.Intn(6) == 0 {
					l = r.Intn(3001)
				}
				if size+4+l+3 > 65000 {
					continue
				}
				size += 4 + (l+3)/4*4
				typ := r.Intn(0x10000)
				if r.Intn(40) == 0 {
					typ = 0x8020 // the legacy alias of XOR-MAPPED-ADDRESS, added as it is
				}
				v.Ops = append(v.Ops, msgOp{Op: "add", T: typ, Data: ints(randBytes(r, l))})
			case x < 10:
				// typed setters (their wire formats are C06's business; here: the struct stays equal to the wire)
				switch r.Intn(5) {
				case 0:
					v.Ops = append(v.Ops, msgOp{Op: "username", Data: ints(randBytes(r, r.Intn(520)))})
				case 1:
					v.Ops = append(v.Ops, msgOp{Op: "xoraddr", Data: ints(randBytes(r, []int{4, 16, 5}[r.Intn(3)])), Port: r.Intn(65536)})
				case 2:
					v.Ops = append(v.Ops, msgOp{Op: "mapped", Data: ints(randBytes(r, []int{4, 16, 0}[r.Intn(3)])), Port: r.Intn(65536)})
				case 3:
					v.Ops = append(v.Ops, msgOp{Op: "errorcode", Code: 300 + r.Intn(400), Data: ints(randBytes(r, r.Intn(30)))})
				case 4:
					l := make([]int, r.Intn(6))
					for j := range l {
						l[j] = r.Intn(65536)
					}
					v.Ops = append(v.Ops, msgOp{Op: "unknown", List: l})
				}
				size += 540
			case x < 11:
				v.Ops = append(v.Ops, msgOp{Op: "settype", M: r.Intn(4096), C: r.Intn(4)})
			case x < 13:
				v.Ops = append(v.Ops, msgOp{Op: "settid", Data: ints(randBytes(r, 12))})
			case x < 14:
				v.Ops = append(v.Ops, msgOp{Op: "integrity", Data: ints(randBytes(r, r.Intn(30)))})
				size += 24
			case x < 15:
				v.Ops = append(v.Ops, msgOp{Op: "fingerprint"})
				size += 8
			case x < 16:
				v.Ops = append(v.Ops, msgOp{Op: "encode"})
			case x < 17:
				v.Ops = append(v.Ops, msgOp{Op: "build"})
				size = 0
			case x < 18:
				d := randomValidMessage(r)
				v.Ops = append(v.Ops, msgOp{Op: []string{"decode", "write"}[r.Intn(2)], Data: ints(d)})
				size = len(d) - 20
			case x < 19:
				v.Ops = append(v.Ops, msgOp{Op: "writeheader"})
			default:
				v.Ops = append(v.Ops, msgOp{Op: "writelength"})
			}
		}
		runMsgVector(tw, tr, v)
	}
}

// randomValidMessage: a decodable message, sometimes with tolerated non-canonical bytes.
func randomValidMessage(r *rand.Rand) []byte {
	raw := []byte{byte(r.Intn(256)), byte(r.Intn(256)), 0, 0, 0x21, 0x12, 0xA4, 0x42}
	raw = append(raw, randBytes(r, 12)...)
	for i, n := 0, r.Intn(5); i < n; i++ {
		t := uint16(r.Intn(0x10000))
		if r.Intn(8) == 0 {
			t = 0x8020
		}
		a := attrBytes(t, randBytes(r, r.Intn(20)))
		if r.Intn(4) == 0 { // garbage padding
			for j := 4 + int(a[2])<<8 + int(a[3]); j < len(a); j++ {
				a[j] = byte(1 + r.Intn(255))
			}
		}
		raw = append(raw, a...)
	}
	setLen(raw)
	if r.Intn(5) == 0 {
		raw = append(raw, randBytes(r, 1+r.Intn(7))...)
	}
	return raw
}
