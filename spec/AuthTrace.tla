------------------------------ MODULE AuthTrace ------------------------------
(***************************************************************************)
(* Trace validation for C04 (MESSAGE-INTEGRITY) and C05 (FINGERPRINT).     *)
(* Line kinds:                                                             *)
(*  fpadd  {pre, post, chk}        fingerprint setter on bytes pre         *)
(*  fpchk  {raw, dec, chk}         Fingerprint.Check on arbitrary bytes    *)
(*  fpflip {raw, flips:[[bit,dec,chk]], bursts:[[bit,[pattern]],dec,chk]}  *)
(*  miadd  {pre, post, key, err}   integrity setter                        *)
(*  michk  {raw, dec, keys:[[key,chk]]}                                    *)
(*  miflip {raw, key, flips:[[bit,dec,chk]]}                               *)
(*  ltkey  {user, realm, pass, key}                                        *)
(* dec/chk/err: 1 = nil (success), 0 = error.  TLC recomputes everything   *)
(* from the bytes with StunAuth.                                           *)
(***************************************************************************)
EXTENDS TraceBase, StunAuth

VARIABLE l

FlipBit(b, bit) ==
  LET i == (bit \div 8) + 1
      m == 2 ^ (7 - (bit % 8))
  IN [b EXCEPT ![i] = b[i] ^^ m]

\* XOR a pattern of bits (sequence of 0/1) starting at bit position `bit`
RECURSIVE FlipBurst(_, _, _)
FlipBurst(b, bit, pat) ==
  IF pat = <<>> THEN b
  ELSE FlipBurst(IF Head(pat) = 1 THEN FlipBit(b, bit) ELSE b, bit + 1, Tail(pat))

FpVariantOK(n, orig, v, dec, chk, what) ==
  LET p == Parse(v) IN
  /\ Expect((dec = 1) = p.ok, n, "decode-verdict", [what |-> what])
  /\ (dec = 1 /\ p.ok) =>
        Require((chk = 1) = FpCheckOK(v, p), n, "fingerprint-check",
                [what |-> what, got |-> chk, want |-> FpCheckOK(v, p)])
  \* detection: a corrupted message in which FINGERPRINT is still the only such attribute
  /\ (v # orig /\ dec = 1 /\ p.ok /\ NumFingerprints(p) = 1) =>
        Require(chk = 0, n, "corruption-undetected", [what |-> what])

FpAddLine(n, e) ==
  LET want == FpAdd(e.pre) IN
  /\ Require(e.post = want, n, "fingerprint-value-written",
             [got |-> SubSeq(e.post, Len(e.post) - 7, Len(e.post)), want |-> SubSeq(want, Len(want) - 7, Len(want))])
  /\ Require(e.chk = 1, n, "fresh-fingerprint-fails-check", <<>>)
  /\ Require(Parse(e.post).ok, n, "fingerprinted-message-undecodable", <<>>)

FpChkLine(n, e) ==
  LET p == Parse(e.raw) IN
  /\ Expect((e.dec = 1) = p.ok, n, "decode-verdict", <<>>)
  /\ (e.dec = 1 /\ p.ok) =>
        Require((e.chk = 1) = FpCheckOK(e.raw, p), n, "fingerprint-check",
                [got |-> e.chk, want |-> FpCheckOK(e.raw, p)])

FpFlipLine(n, e) ==
  /\ \A i \in 1..Len(e.flips) :
        FpVariantOK(n, e.raw, FlipBit(e.raw, e.flips[i][1]), e.flips[i][2], e.flips[i][3], [bit |-> e.flips[i][1]])
  /\ \A i \in 1..Len(e.bursts) :
        FpVariantOK(n, e.raw, FlipBurst(e.raw, e.bursts[i][1], e.bursts[i][2]), e.bursts[i][3], e.bursts[i][4],
                    [burst_at |-> e.bursts[i][1], pattern |-> e.bursts[i][2]])

MiAddLine(n, e) ==
  LET p == Parse(e.pre) IN
  IF ~p.ok THEN Require(FALSE, n, "trace-format", "miadd on undecodable bytes")
  ELSE IF MiRefused(p)
       THEN /\ Require(e.err = 0, n, "signing-after-fingerprint-accepted", <<>>)
            /\ Require(e.post = e.pre, n, "refused-signing-changed-message", <<>>)
       ELSE /\ Require(e.err = 1, n, "signing-refused", <<>>)
            /\ Require(e.post = MiAdd(e.pre, e.key), n, "integrity-value-written",
                       [got |-> SubSeq(e.post, Len(e.post) - 19, Len(e.post))])

MiChkLine(n, e) ==
  LET p == Parse(e.raw) IN
  /\ Expect((e.dec = 1) = p.ok, n, "decode-verdict", <<>>)
  /\ (e.dec = 1 /\ p.ok) =>
        \A i \in 1..Len(e.keys) :
          Require((e.keys[i][2] = 1) = MiCheckOK(e.raw, p, e.keys[i][1]), n, "integrity-check",
                  [key |-> e.keys[i][1], got |-> e.keys[i][2], want |-> MiCheckOK(e.raw, p, e.keys[i][1])])

MiFlipLine(n, e) ==
  \A i \in 1..Len(e.flips) :
    LET v == FlipBit(e.raw, e.flips[i][1])
        p == Parse(v)
    IN /\ Expect((e.flips[i][2] = 1) = p.ok, n, "decode-verdict", [bit |-> e.flips[i][1]])
       /\ (e.flips[i][2] = 1 /\ p.ok) =>
            Require((e.flips[i][3] = 1) = MiCheckOK(v, p, e.key), n, "integrity-check",
                    [bit |-> e.flips[i][1], got |-> e.flips[i][3]])

LtKeyLine(n, e) ==
  Require(e.key = LongTermKey(e.user, e.realm, e.pass), n, "long-term-key",
          [got |-> e.key, want |-> LongTermKey(e.user, e.realm, e.pass)])

CheckLine(n, e) ==
  CASE e.k = "fpadd"  -> FpAddLine(n, e)
    [] e.k = "fpchk"  -> FpChkLine(n, e)
    [] e.k = "fpflip" -> FpFlipLine(n, e)
    [] e.k = "miadd"  -> MiAddLine(n, e)
    [] e.k = "michk"  -> MiChkLine(n, e)
    [] e.k = "miflip" -> MiFlipLine(n, e)
    [] e.k = "ltkey"  -> LtKeyLine(n, e)
    [] OTHER -> Reject(n, "unknown-line", e.k)

Init == RegInit /\ l = 1
Next == /\ l <= NLines
        /\ CheckLine(l, Trace[l])
        /\ Consumed(l)
        /\ l' = l + 1
Spec == Init /\ [][Next]_l
=============================================================================
