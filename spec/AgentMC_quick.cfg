SPECIFICATION Spec
CONSTANTS
  i1 = i1
  i2 = i2
  i3 = i3
  i4 = i4
  h1 = h1
  h2 = h2
  None = None
  Ids = {i1, i2, i3}
  Times = {0, 1, 2, 3}
  Handlers = {h1, h2}
VIEW View
INVARIANT TypeOK
INVARIANT ClosedIsEmpty
PROPERTY ExactlyOneTerminal
PROPERTY SilentAfterClose
PROPERTY StableUntilTerminated
ACTION_CONSTRAINT PrintEdge
CHECK_DEADLOCK FALSE
