"""C03 - built messages are well-formed and the struct always matches its wire bytes."""
import json
import vlib
from props.c13 import edges_from, transition_cover


def concretize(a, inputs):
    op = dict(a)
    if op["op"] == "add":
        n = op.get("n", 0)
        op["data"] = [64 + n] * n
    elif op["op"] == "decode":
        op["data"] = inputs[op["k"] - 1]
    elif op["op"] == "settid":
        op["data"] = [100 + i for i in range(1, 13)]
    elif op["op"] == "integrity":
        op["data"] = [5]
    return op


def gen_vectors(ctx, cfg, name):
    r = ctx.tlc_model("MessageMC", cfg, workers=vlib.NCPU, heap_gb=10, timeout=2400, name=name)
    inputs = None
    for ln in r["out"].splitlines():
        if ln.startswith('"INPUTS '):
            inputs = json.loads(json.loads(ln)[7:])
            break
    edges = edges_from(r["out"])
    if not edges or inputs is None:
        raise vlib.Inconclusive("no edges/inputs exported by MessageMC")
    seqs, nstates = transition_cover(edges)
    return [[concretize(a, inputs) for a in s] for s in seqs], nstates, len(edges)


def run(ctx):
    rin = ctx.replay_input()
    vec = ctx.path("c03_vectors.ndjson")
    env = {}
    nseq = nstates = nedges = 0
    if rin is not None:
        with open(vec, "w") as fh:
            fh.write(json.dumps(rin) + "\n")
    else:
        cfg = "MessageMC_d4.cfg" if ctx.quick() else "MessageMC_d5.cfg"
        seqs, nstates, nedges = gen_vectors(ctx, cfg, "Message building histories, depth %d" % (4 if ctx.quick() else 5))
        with open(vec, "w") as fh:
            for s in seqs:
                fh.write(json.dumps({"ops": s, "storage": 48, "all": False}) + "\n")
        nseq = len(seqs)
        vlib.log("GEN transition cover: %d edges over %d states" % (nedges, nstates))
        env = {"VERIF_RANDOM_SEQS": 150 if ctx.quick() else 2500}
    h = ctx.harness("stun")
    trace = ctx.path("c03.ndjson")
    ctx.drive(h, "TestVerifMsg", env=dict(env, VERIF_TRACE_OUT=trace, VERIF_VECTORS=vec), timeout=900)
    bytr = {}
    with open(trace) as fh:
        for ln in fh:
            e = json.loads(ln)
            bytr.setdefault(e["tr"], []).append(e)
    vectors = {}
    with open(vec) as fh:
        for i, ln in enumerate(fh):
            vectors[i + 1] = json.loads(ln)
    files = ctx.shard(trace, vlib.NCPU * 2)
    ctx.validate("MsgTrace", files, heap_gb=4, timeout=2400)
    ctx.add_samples(trace, 3, maxlen=900)
    total = sum(len(v) for v in bytr.values())

    def input_of(rj):
        tl = rj["trace_line"]
        if tl["tr"] in vectors:
            v = dict(vectors[tl["tr"]])
            v["ops"] = v["ops"][: tl["i"] + 1]
            return v
        # random history: rebuild the prefix from the recorded steps
        ops = [x["op"] for x in bytr[tl["tr"]] if x["i"] <= tl["i"]]
        return {"ops": ops, "storage": bytr[tl["tr"]][0]["pre"]["cap"], "all": True}
    ctx.input_of = input_of
    ctx.extra.update({"edges_replayed": nseq, "model_states": nstates, "steps_validated": total})
    ctx.assumptions += ["canonical-history scope of the zero-padding/exact-length clauses as fixed in DESIGN.md C03",
                        "struct fields are only changed through the library's operations"]
    return vlib.finish(ctx, traces_validated=total,
                       rule="transition cover of the exhaustive Message model (17 operations, 5 decode inputs incl. non-canonical ones, poison-filled storage), last step of each path validated; plus seeded random histories with values up to 3000 bytes, every method/class, random TIDs")
