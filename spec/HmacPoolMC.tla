----------------------------- MODULE HmacPoolMC -----------------------------
EXTENDS HmacPool, TLC, Json
CONSTANTS k1, k2, k3, o1, o2, ca, cb
KN(k) == CASE k = k1 -> 1 [] k = k2 -> 2 [] k = k3 -> 3 [] OTHER -> 0
ON(o) == CASE o = o1 -> 1 [] o = o2 -> 2
CN(c) == CASE c = ca -> 1 [] c = cb -> 2
SV(s) == [held |-> s.held, pad |-> KN(s.pad), m |-> s.marshaled, cache |-> KN(s.cache), ik |-> KN(s.inKey),
          id |-> [i \in 1..Len(s.inData) |-> CN(s.inData[i])], ck |-> KN(s.curKey),
          w |-> [i \in 1..Len(s.want) |-> CN(s.want[i])], made |-> s.made]
StateJ(ob) == [i \in 1..Cardinality(Objs) |-> SV(ob[IF i = 1 THEN o1 ELSE o2])]
ActJ(a) == CASE a.op = "acquire" -> [op |-> a.op, o |-> ON(a.o), k |-> KN(a.k)]
             [] a.op = "write" -> [op |-> a.op, o |-> ON(a.o), c |-> CN(a.c)]
             [] OTHER -> [op |-> a.op, o |-> ON(a.o)]
PrintEdge == PrintT("EDGE " \o ToJson([f |-> StateJ(obj), a |-> ActJ(act'), t |-> StateJ(obj')]))
=============================================================================
