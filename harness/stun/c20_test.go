//go:build verif

package stun_test

import (
	"bufio"
	"encoding/json"
	"errors"
	"net"
	"os"
	"runtime"
	"testing"

	"github.com/pion/stun/v3"
)

type allocShape struct {
	N    int  `json:"n"`
	Text int  `json:"text"`
	Fam  int  `json:"fam"`
	Unk  int  `json:"unk"`
	MI   bool `json:"mi"`
	FP   bool `json:"fp"`
}

type allocVec struct {
	W    allocShape `json:"w"`
	M    allocShape `json:"m"`
	Op   string     `json:"op"`
	Must bool       `json:"must"`
}

var c20Key = stun.NewShortTermIntegrity("pwd")

type shapeSetters struct {
	uname stun.Username
	addr  stun.XORMappedAddress
	ec    stun.ErrorCodeAttribute
	ua    stun.UnknownAttributes
	sw    stun.Software
	list  []stun.Setter // pointer setters, prepared once
}

func settersOf(s allocShape, salt byte) *shapeSetters {
	x := &shapeSetters{}
	x.uname = make(stun.Username, s.Text)
	for i := range x.uname {
		x.uname[i] = 'a' + byte(i%26)
	}
	ip := make(net.IP, s.Fam)
	for i := range ip {
		ip[i] = byte(i*7) + salt + 1
	}
	x.addr = stun.XORMappedAddress{IP: ip, Port: 1000 + int(salt)}
	x.ec = stun.ErrorCodeAttribute{Code: 438, Reason: []byte("stale")}
	if s.Text == 513 {
		// the largest shapes also carry the longest reason phrase the attribute allows
		x.ec.Reason = make([]byte, 763)
		for i := range x.ec.Reason {
			x.ec.Reason[i] = 'r'
		}
	}
	x.ua = make(stun.UnknownAttributes, s.Unk)
	for i := range x.ua {
		x.ua[i] = stun.AttrType(0x7000 + i)
	}
	x.sw = stun.Software("pion/s")
	tid := stun.NewTransactionIDSetter([stun.TransactionIDSize]byte{1, 2, 3, salt})
	x.list = []stun.Setter{stun.BindingSuccess, tid, &x.uname, &x.addr, &x.ec, &x.ua}
	for i := 0; i < s.N; i++ {
		x.list = append(x.list, &x.sw)
	}
	if s.MI {
		x.list = append(x.list, c20Key)
	}
	if s.FP {
		x.list = append(x.list, stun.Fingerprint)
	}
	return x
}

var errC20Stop = errors.New("stop")

func c20Visit(m *stun.Message) error {
	_, _ = m.Get(m.Attributes[0].Type)
	return nil
}

// c20AbortAtLast fails on the last attribute of the message (ForEach hands the callback the rest of the list)
func c20AbortAtLast(m *stun.Message) error {
	if len(m.Attributes) == 1 {
		return errC20Stop
	}
	return nil
}

func TestVerifC20(t *testing.T) {
	tw := newTrace(t)
	defer tw.close()
	f, err := os.Open(os.Getenv("VERIF_VECTORS"))
	if err != nil {
		t.Fatal(err)
	}
	defer f.Close()
	sc := bufio.NewScanner(f)
	sc.Buffer(make([]byte, 1<<20), 1<<26)
	nvec := 0
	for sc.Scan() {
		var v allocVec
		if err := json.Unmarshal(sc.Bytes(), &v); err != nil {
			t.Fatal(err)
		}
		ws, ms := settersOf(v.W, 1), settersOf(v.M, 2)
		warm, meas := new(stun.Message), new(stun.Message)
		if err := warm.Build(ws.list...); err != nil {
			t.Fatal(err)
		}
		if err := meas.Build(ms.list...); err != nil {
			t.Fatal(err)
		}
		warmRaw := append([]byte(nil), warm.Raw...)
		measRaw := append([]byte(nil), meas.Raw...)
		// the Message and the destination values are first used for the warm-up message
		m := &stun.Message{Raw: make([]byte, 0, len(warmRaw))}
		var (
			addr  stun.XORMappedAddress
			uname stun.Username
			ec    stun.ErrorCodeAttribute
			ua    stun.UnknownAttributes
		)
		useAll := func(raw []byte) {
			if _, err := m.Write(raw); err != nil {
				t.Fatal(err)
			}
			_ = addr.GetFrom(m)
			_ = uname.GetFrom(m)
			_ = ec.GetFrom(m)
			_ = ua.GetFrom(m)
			_, _ = m.Get(stun.AttrUsername)
			_ = m.Contains(stun.AttrFingerprint)
			if m.Contains(stun.AttrMessageIntegrity) {
				_ = c20Key.Check(m)
			}
			if m.Contains(stun.AttrFingerprint) {
				_ = stun.Fingerprint.Check(m)
			}
		}
		useAll(warmRaw)
		// capacities only grow: an intermediate use for a smaller message must not undo the warm-up
		nvec++
		if nvec%2 == 0 {
			small := new(stun.Message)
			if err := small.Build(settersOf(allocShape{Fam: 4}, 3).list...); err != nil {
				t.Fatal(err)
			}
			useAll(append([]byte(nil), small.Raw...))
		}
		rebuilt := &stun.Message{Raw: make([]byte, 0, len(warmRaw))}
		// MESSAGE-INTEGRITY's setter is documented to allocate: rebuild is measured without it
		rebuildList := func(x *shapeSetters) []stun.Setter {
			out := []stun.Setter{}
			for _, s := range x.list {
				if _, isMI := s.(stun.MessageIntegrity); !isMI {
					out = append(out, s)
				}
			}
			return out
		}
		wl, ml := rebuildList(ws), rebuildList(ms)
		_ = rebuilt.Build(wl...)
		if v.Op != "decode" {
			if _, err := m.Write(measRaw); err != nil {
				t.Fatal(err)
			}
		}
		var op func()
		switch v.Op {
		case "decode":
			op = func() { _, _ = m.Write(measRaw) }
		case "get":
			op = func() {
				_, _ = m.Get(stun.AttrUsername)
				_ = m.Contains(stun.AttrSoftware)
				_, _ = m.Get(stun.AttrPriority)
			}
		case "xor_getfrom":
			op = func() { _ = addr.GetFrom(m) }
		case "text_getfrom":
			op = func() { _ = uname.GetFrom(m) }
		case "errorcode_getfrom":
			op = func() { _ = ec.GetFrom(m) }
		case "unknown_getfrom":
			op = func() { _ = ua.GetFrom(m) }
		case "integrity_check":
			op = func() { _ = c20Key.Check(m) }
		case "fingerprint_check":
			op = func() { _ = stun.Fingerprint.Check(m) }
		case "rebuild":
			op = func() { _ = rebuilt.Build(ml...) }
		case "foreach":
			t0 := m.Attributes[len(m.Attributes)/2].Type
			op = func() { _ = m.ForEach(t0, c20Visit); _ = m.ForEach(stun.AttrPriority, c20Visit) }
		case "abort_then_decode":
			tl := m.Attributes[len(m.Attributes)-1].Type
			op = func() { _ = m.ForEach(tl, c20AbortAtLast); _, _ = m.Write(measRaw) }
		}
		allocs := testing.AllocsPerRun(5, op)
		if nvec%2 == 0 {
			// AllocsPerRun discards the first execution; here the first execution after the intermediate use is
			// the one that matters: measure single executions (smallest of three cycles, noise is additive)
			small := new(stun.Message)
			_ = small.Build(settersOf(allocShape{Fam: 4}, 3).list...)
			smallRaw := append([]byte(nil), small.Raw...)
			best := -1.0
			for c := 0; c < 3; c++ {
				useAll(smallRaw)
				_ = rebuilt.Build(settersOf(allocShape{Fam: 4}, 3).list[:2]...)
				if v.Op != "decode" {
					_, _ = m.Write(measRaw)
				}
				var a, b runtime.MemStats
				runtime.ReadMemStats(&a)
				op()
				runtime.ReadMemStats(&b)
				d := float64(b.Mallocs - a.Mallocs)
				if best < 0 || d < best {
					best = d
				}
			}
			if best > allocs {
				allocs = best
			}
		}
		spare := cap(m.Raw) - len(m.Raw)
		tw.emit(map[string]interface{}{"k": "alloc", "op": v.Op, "w": v.W, "m": v.M, "spare": spare, "allocs": int(allocs),
			"must": v.Must, "unk": v.M.Unk, "intermediate_small_use": nvec%2 == 0})
	}
}
