"""C07 - attribute getters and checkers are total, local and side-effect free."""
import json
import vlib


def run(ctx):
    rin = ctx.replay_input()
    vec = ctx.path("c07_vectors.ndjson")
    nscen = 0
    if rin is not None:
        with open(vec, "w") as fh:
            for _ in range(200):          # the scenario is re-instantiated many times with fresh random content
                fh.write(json.dumps(rin) + "\n")
    else:
        cfg = "ScenGen_C07_quick.cfg" if ctx.quick() else "ScenGen_C07_thorough.cfg"
        r = ctx.tlc_model("ScenGen", cfg, workers=2, heap_gb=3, name="getter x length x position x capacity x fill")
        scens = [json.loads(json.loads(ln)[4:]) for ln in r["out"].splitlines() if ln.startswith('"VEC ')]
        if not scens:
            raise vlib.Inconclusive("no scenarios exported")
        with open(vec, "w") as fh:
            for s in scens:
                fh.write(json.dumps(s) + "\n")
        nscen = len(scens)
    total = 0
    tagsets = [("verif",)] if ctx.quick() or rin is not None else [("verif",), ("verif", "debug")]
    for tags in tagsets:
        h = ctx.harness("stun", tags=tags)
        trace = ctx.path("c07_%s.ndjson" % "_".join(tags))
        ctx.drive(h, "TestVerifC07", env={"VERIF_TRACE_OUT": trace, "VERIF_VECTORS": vec}, timeout=900)
        files = ctx.shard(trace, vlib.NCPU * 2, group_key="grp")
        ctx.validate("GetTrace", files, heap_gb=3, timeout=1800)
        ctx.add_samples(trace, 2, maxlen=900)
        total += sum(1 for _ in open(trace))
    ctx.input_of = lambda rj: rj["trace_line"]["scen"]
    ctx.extra.update({"scenarios": nscen, "calls_recorded": total, "build_tags": ["+".join(t) for t in tagsets]})
    ctx.assumptions += ["twin groups of 3 members per scenario sample the 'everything else' the outcome must not depend on",
                        "for the integrity/fingerprint checkers the covered span is shared by the twins, as the property allows"]
    return vlib.finish(ctx, traces_validated=total, exhaustive=False,
                       rule="complete product getter/checker(14) x value length x position(3) x spare capacity(5) x fill(3), each instantiated as a group of 3 twin messages with random content")
