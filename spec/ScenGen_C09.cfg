SPECIFICATION Spec
CONSTANTS
  Which = "C09"
  Lens = {0}
INVARIANT Export
CHECK_DEADLOCK FALSE
