import glob, os, subprocess, sys, tempfile, shutil
sys.path.insert(0, os.path.dirname(os.path.abspath(__file__)))
import vlib

def main():
    d = tempfile.mkdtemp(prefix="verif-setup-")
    try:
        sd = os.path.join(d, "spec")
        shutil.copytree(vlib.SPEC, sd)
        bad = 0
        for f in sorted(glob.glob(os.path.join(sd, "*.tla"))):
            p = subprocess.run(["java", "-DTLA-Library=/opt/veriftools/tlapm/lib/tlapm/stdlib", "-cp", vlib.TLA_CP, "tla2sany.SANY", os.path.basename(f)], cwd=sd,
                               stdout=subprocess.PIPE, stderr=subprocess.STDOUT, text=True)
            if p.returncode != 0 or "Semantic errors" in p.stdout or "Parse Error" in p.stdout or "Fatal" in p.stdout or "Could not parse" in p.stdout:
                print("SANY FAILED:", os.path.basename(f)); print(p.stdout[-1500:]); bad += 1
        if bad:
            sys.exit(1)
        ctx = vlib.Ctx("SETUP", "quick", 1, os.environ.get("VERIF_REPO", "/repo"))
        try:
            for pkg in ("stun", "hmac"):
                if glob.glob(os.path.join(vlib.HARNESS, pkg, "*.go")):
                    ctx.harness(pkg)
        finally:
            ctx.cleanup()
        print("setup ok")
    finally:
        shutil.rmtree(d, ignore_errors=True)
main()
