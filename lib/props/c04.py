"""C04 - MESSAGE-INTEGRITY exactly as RFC 5389 s15.4."""
from props import auth


def run(ctx):
    return auth.run(ctx, "C04")
