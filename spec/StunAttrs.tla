------------------------------ MODULE StunAttrs ------------------------------
(***************************************************************************)
(* Wire formats of the typed attributes, written from RFC 5389 s15 (and    *)
(* RFC 5780 s7.3/7.4 for RESPONSE-ORIGIN / OTHER-ADDRESS, which reuse the  *)
(* MAPPED-ADDRESS format), independent of addr.go / xoraddr.go /           *)
(* textattrs.go / errorcode.go / uattrs.go.                                *)
(***************************************************************************)
EXTENDS StunWire

FamilyV4 == 1
FamilyV6 == 2

CookieBytes == << 33, 18, 164, 66 >>       \* 0x2112A442

\* an address value is [ip |-> 4 or 16 bytes, port |-> 0..65535]
IsV4Mapped(ip) == Len(ip) = 16 /\ SubSeq(ip, 1, 10) = Zeros(10) /\ ip[11] = 255 /\ ip[12] = 255
\* addresses are compared as addresses: the 16-byte IPv4-mapped form denotes the IPv4 address
NormIP(ip) == IF IsV4Mapped(ip) THEN SubSeq(ip, 13, 16) ELSE ip
ValidIP(ip) == Len(ip) \in {4, 16}

\* s15.1 MAPPED-ADDRESS (also ALTERNATE-SERVER s15.11, RESPONSE-ORIGIN, OTHER-ADDRESS):
\*  |0 0 0 0 0 0 0 0|    Family     |           Port                |  Address (32 or 128 bits)
EncMapped(ip, port) ==
  LET a == NormIP(ip) IN
  << 0, IF Len(a) = 4 THEN FamilyV4 ELSE FamilyV6 >> \o U16Bytes(port) \o a

\* s15.2 XOR-MAPPED-ADDRESS: X-Port = port XOR the 16 most significant bits of the magic cookie;
\* X-Address = address XOR magic cookie (IPv4) / XOR (magic cookie || transaction ID) (IPv6)
XorKey(tid) == CookieBytes \o tid
EncXor(ip, port, tid) ==
  LET a == NormIP(ip) IN
  << 0, IF Len(a) = 4 THEN FamilyV4 ELSE FamilyV6 >> \o U16Bytes(port ^^ 8466)
     \o XorBytes(a, SubSeq(XorKey(tid), 1, Len(a)))

\* decoders: [ok, ip, port]; a value is well formed when the family is known and the address has
\* exactly the family's size
AddrLenOf(fam) == IF fam = FamilyV4 THEN 4 ELSE 16
WellFormedAddr(v) == Len(v) >= 4 /\ v[2] \in {FamilyV4, FamilyV6} /\ Len(v) = 4 + AddrLenOf(v[2])
DecMapped(v) == [ip |-> SubSeq(v, 5, Len(v)), port |-> U16At(v, 2)]
DecXor(v, tid) == [ip |-> XorBytes(SubSeq(v, 5, Len(v)), SubSeq(XorKey(tid), 1, Len(v) - 4)),
                   port |-> U16At(v, 2) ^^ 8466]

\* text attributes (s15.3 USERNAME < 513 bytes; s15.7 REALM, s15.8 NONCE, s15.10 SOFTWARE: fewer than
\* 128 characters = up to 763 bytes): the value is the text itself
AttrUsername == 6
AttrRealm    == 20
AttrNonce    == 21
AttrSoftware == 32802
TextLimit(t) == IF t = AttrUsername THEN 513 ELSE 763

\* s15.6 ERROR-CODE: 21 reserved bits, class (3 bits, hundreds digit), number (8 bits, 0..99), reason
EncErrorCode(code, reason) == << 0, 0, code \div 100, code % 100 >> \o reason
DecErrorCode(v) == [code |-> (v[3] % 8) * 100 + v[4], reason |-> SubSeq(v, 5, Len(v))]
ReasonLimit == 763

\* s15.9 UNKNOWN-ATTRIBUTES: a list of 16-bit attribute types
RECURSIVE EncUnknown(_)
EncUnknown(list) == IF list = <<>> THEN <<>> ELSE U16Bytes(Head(list)) \o EncUnknown(Tail(list))
DecUnknown(v) == [i \in 1..(Len(v) \div 2) |-> U16At(v, 2 * (i - 1))]

\* error codes that have a default reason phrase: RFC 5389 s15.6, RFC 5766 s15, RFC 5245 s19.3 / RFC 8445,
\* RFC 6062 s6.3, RFC 6156 s10
DefaultReasonCodes ==
  {300, 400, 401, 420, 438, 500}                \* RFC 5389
  \cup {403, 437, 441, 442, 486, 508}           \* RFC 5766
  \cup {487}                                    \* RFC 5245
  \cup {446, 447}                               \* RFC 6062
  \cup {440, 443}                               \* RFC 6156

=============================================================================
