SPECIFICATION Spec
CONSTANTS
  MaxBefore = 2
  MaxAfter = 2
  CheckTheorems = TRUE
INVARIANT Theorems
INVARIANT Export
CHECK_DEADLOCK FALSE
