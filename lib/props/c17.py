"""C17 - URIs get RFC 7064/7065 defaults, round-trip, and dial the transport they name."""
import json
import vlib


def run(ctx):
    rin = ctx.replay_input()
    vec = ctx.path("c17_vectors.ndjson")
    nvec = 0
    env = {}
    if rin is not None and rin.get("k") in ("uri", "mut"):
        with open(vec, "w") as fh:
            if rin["k"] == "uri":
                fh.write(json.dumps({"s": rin["s"], "h": rin["h"], "p": rin["p"], "q": rin["q"], "text": rin["in"]}) + "\n")
    else:
        r = ctx.tlc_model("UriGen", "UriGen.cfg", workers=4, heap_gb=4, name="URI component product (7 schemes x 6 hosts x 12 ports x 10 queries)")
        vs = [json.loads(json.loads(ln)[4:]) for ln in r["out"].splitlines() if ln.startswith('"VEC ')]
        if not vs:
            raise vlib.Inconclusive("no URIs exported")
        with open(vec, "w") as fh:
            for v in vs:
                fh.write(json.dumps(v) + "\n")
        nvec = len(vs)
        env["VERIF_DIAL"] = "1"
    h = ctx.harness("stun")
    trace = ctx.path("c17.ndjson")
    ctx.drive(h, "TestVerifC17", env=dict(env, VERIF_TRACE_OUT=trace, VERIF_VECTORS=vec), timeout=600)
    files = ctx.shard(trace, vlib.NCPU)
    ctx.validate("UriTrace17", files, heap_gb=3)
    ctx.add_samples(trace, 4, maxlen=600)
    total = sum(1 for _ in open(trace))
    ctx.input_of = lambda rj: rj["trace_line"]
    ctx.extra.update({"uris_from_tlc": nvec, "lines": total})
    ctx.assumptions += ["UriRef's accept/reject/free classification is the reading of the property text and RFC 7064/7065 given in DESIGN.md C17",
                        "transport wrapping is observed from the first bytes written to the injected connection (STUN cookie / TLS / DTLS record, SNI)"]
    return vlib.finish(ctx, traces_validated=total, exhaustive=True,
                       rule="complete component product from TLC (5040 URIs) + 3 mutations each; 5x3 scheme/transport x 2 hosts hand-made URIs and every parser-producible shape dialled through an injected transport.Net; two secure URIs sharing one DialConfig")
