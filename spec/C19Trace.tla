------------------------------ MODULE C19Trace ------------------------------
(***************************************************************************)
(* Trace validation for C19: the complete tables of MessageType.Value and  *)
(* MessageType.ReadValue dumped from the real code are compared entry by   *)
(* entry with the RFC 5389 figure-3 position table (StunType).             *)
(*   {"k":"V","m":m,"vals":[Value(m,0..3)]}                                *)
(*   {"k":"R","base":v,"mc":[[method,class] for v..v+15]}                  *)
(***************************************************************************)
EXTENDS TraceBase, StunType

VARIABLE l, seenV, seenR

Init == RegInit /\ l = 1 /\ seenV = 0 /\ seenR = 0

CheckV(n, e) ==
  \A c \in 0..3 :
    Require(e.vals[c + 1] = TypeValue(e.m, c), n, "value",
            [m |-> e.m, c |-> c, got |-> e.vals[c + 1], want |-> TypeValue(e.m, c)])

CheckR(n, e) ==
  \A i \in 1..Len(e.mc) :
    LET v == e.base + i - 1 IN
    Require(<< e.mc[i][1], e.mc[i][2] >> = ReadType(v), n, "readvalue",
            [v |-> v, got |-> e.mc[i], want |-> ReadType(v)])

\* beyond C19 (same complete-domain style): comprehension ranges, class names and their panic domain,
\* totality of the String methods
CheckQ(n, e) ==
  \A i \in 1..16 :
    Require(e.req[i] = ComprehensionRequired(e.base + i - 1) /\ e.opt[i] = ComprehensionOptional(e.base + i - 1), n,
            "comprehension-range", [type |-> e.base + i - 1])
CheckC(n, e) ==
  IF e.class \in Classes THEN Require(~e.panics /\ e.name = ClassName(e.class), n, "class-name", [class |-> e.class, name |-> e.name])
  ELSE Require(e.panics, n, "class-string-domain", [class |-> e.class])
CheckN(n, e) == \A i \in 1..Len(e.ok) : Require(e.ok[i], n, "string-not-total", [value |-> e.base + i - 1])

Next ==
  /\ l <= NLines
  /\ LET e == Trace[l] IN
       /\ CASE e.k = "V" -> CheckV(l, e)
            [] e.k = "R" -> CheckR(l, e)
            [] e.k = "Q" -> CheckQ(l, e)
            [] e.k = "C" -> CheckC(l, e)
            [] e.k = "N" -> CheckN(l, e)
            [] OTHER -> Reject(l, "unknown-line", e.k)
       /\ seenV' = seenV + (IF e.k = "V" THEN 4 ELSE 0)
       /\ seenR' = seenR + (IF e.k = "R" THEN Len(e.mc) ELSE 0)
  /\ Consumed(l)
  /\ l' = l + 1

Spec == Init /\ [][Next]_<<l, seenV, seenR>>

\* the dump must cover the complete domain
Complete == (l = NLines + 1) => Require(seenV = 16384 /\ seenR = 65536, l, "incomplete-domain",
                                        [v |-> seenV, r |-> seenR])
=============================================================================
