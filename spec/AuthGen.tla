------------------------------- MODULE AuthGen -------------------------------
(***************************************************************************)
(* Shape generator for C04/C05 and design-level theorems of StunAuth.      *)
(* A shape fixes what surrounds the MESSAGE-INTEGRITY attribute: the value *)
(* lengths of the attributes before it, the MAC variant, what follows it   *)
(* (more attributes, a second MESSAGE-INTEGRITY, a FINGERPRINT) and the    *)
(* key class.  Every shape is one TLC state; on each, TLC evaluates the    *)
(* reference (real HMAC-SHA1 / CRC-32 in TLA+) on canonical bytes:         *)
(* sign-then-verify, independence of what follows the MAC, rejection of    *)
(* every MAC variant and of a different key, fingerprint round trip.       *)
(***************************************************************************)
EXTENDS StunAuth, TLC, Json

CONSTANTS MaxBefore, MaxAfter, CheckTheorems

BeforeLens == {0, 1, 2, 3, 4}
AfterLens  == {0, 1, 2, 3}
MacVars == {"ok", "len0", "len4", "len19", "len21", "len40", "first", "last", "prefix4", "prefix19"}
Tails == {"none", "mi2", "fp"}
KeyClasses == {0, 1, 20, 63, 64, 65, 200}

SeqsUpTo(S, n) == UNION { [1..k -> S] : k \in 0..n }

VARIABLE sh
\* two steps (key and MAC variant first, the surroundings second) so that TLC's workers share the shapes
Init == sh \in [before : {<<>>}, mac : MacVars, after : {<<>>}, tail : {"none"}, key : KeyClasses, done : {FALSE}]
Next == /\ ~sh.done
        /\ \E b \in SeqsUpTo(BeforeLens, MaxBefore) \cup { [i \in 1..8 |-> 4] },
              a \in SeqsUpTo(AfterLens, MaxAfter), t \in Tails :
             sh' = [sh EXCEPT !.before = b, !.after = a, !.tail = t, !.done = TRUE]
Spec == Init /\ [][Next]_sh

---------------------------------------------------------------------------
TidBytes == [i \in 1..12 |-> i]
Hdr(n) == << 0, 1 >> \o U16Bytes(n) \o << 33, 18, 164, 66 >> \o TidBytes
AttrBytes(t, v) == U16Bytes(t) \o U16Bytes(Len(v)) \o v \o Zeros(PadLen(Len(v)))

RECURSIVE Cat(_)
Cat(ss) == IF ss = <<>> THEN <<>> ELSE Head(ss) \o Cat(Tail(ss))

KeyOf(c) == [i \in 1..c |-> (i * 7) % 256]
OtherKey(c) == IF c = 0 THEN << 1 >> ELSE [KeyOf(c) EXCEPT ![1] = (@ + 1) % 256]

Pre == LET body == Cat([i \in 1..Len(sh.before) |-> AttrBytes(6, Fill(sh.before[i], 97))])
       IN Hdr(Len(body)) \o body

Signed == MiAdd(Pre, KeyOf(sh.key))
Mac == SubSeq(Signed, Len(Signed) - 19, Len(Signed))

MacVariant ==
  CASE sh.mac = "ok"       -> Mac
    [] sh.mac = "len0"     -> <<>>
    [] sh.mac = "len4"     -> SubSeq(Mac, 1, 4)
    [] sh.mac = "len19"    -> SubSeq(Mac, 1, 19)
    [] sh.mac = "len21"    -> Mac \o << 0 >>
    [] sh.mac = "len40"    -> Mac \o Mac
    [] sh.mac = "first"    -> [Mac EXCEPT ![1] = (@ + 1) % 256]
    [] sh.mac = "last"     -> [Mac EXCEPT ![20] = (@ + 1) % 256]
    [] sh.mac = "prefix4"  -> SubSeq(Mac, 1, 4) \o Zeros(16)
    [] sh.mac = "prefix19" -> SubSeq(Mac, 1, 19) \o << (Mac[20] + 1) % 256 >>

\* the complete message of the shape (FINGERPRINT of the "fp" tail computed by the reference)
Message ==
  LET after == Cat([i \in 1..Len(sh.after) |-> AttrBytes(32802, Fill(sh.after[i], 98))])
      tail  == IF sh.tail = "mi2" THEN AttrBytes(8, Fill(20, 17)) ELSE <<>>
      body  == SubSeq(Pre, 21, Len(Pre)) \o AttrBytes(8, MacVariant) \o after \o tail
      m     == Hdr(Len(body)) \o body
  IN IF sh.tail = "fp" THEN FpAdd(m) ELSE m

Theorems ==
  (CheckTheorems /\ sh.done) =>
    LET m == Message
        p == Parse(m)
    IN /\ p.ok
       /\ MiCheckOK(m, p, KeyOf(sh.key)) = (sh.mac = "ok")
       /\ ~MiCheckOK(m, p, OtherKey(sh.key))
       /\ (sh.tail = "fp") => (FpCheckOK(m, p) /\ MiRefused(p))
       /\ (sh.tail # "fp") => ~FpCheckOK(m, p)

Export == sh.done => PrintT("VEC " \o ToJson(sh))
=============================================================================
