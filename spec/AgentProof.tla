----------------------------- MODULE AgentProof -----------------------------
(***************************************************************************)
(* TLAPS proof that the Agent's accounting invariant is inductive, for any *)
(* set of ids and unbounded histories (companion of AgentInd.tla, which    *)
(* Apalache checks for three ids).                                         *)
(***************************************************************************)
EXTENDS Integers, TLAPS

CONSTANTS Ids, NoneV
ASSUME NoneAssm == NoneV = -1

VARIABLES tab, closed, started, terminated
vars == << tab, closed, started, terminated >>

Reg(i) == tab[i] # NoneV
B2I(b) == IF b THEN 1 ELSE 0

TypeOK == /\ tab \in [Ids -> Int]
          /\ \A i \in Ids : tab[i] >= NoneV
          /\ closed \in BOOLEAN
          /\ started \in [Ids -> Nat] /\ terminated \in [Ids -> Nat]

IndInv ==
  /\ TypeOK
  /\ \A i \in Ids : started[i] = terminated[i] + B2I(Reg(i))
  /\ closed => \A i \in Ids : ~Reg(i)

Init == /\ tab = [i \in Ids |-> NoneV] /\ closed = FALSE
        /\ started = [i \in Ids |-> 0] /\ terminated = [i \in Ids |-> 0]

Start(i, d) ==
  /\ d >= 0
  /\ IF closed \/ Reg(i) THEN UNCHANGED << tab, started >>
     ELSE tab' = [tab EXCEPT ![i] = d] /\ started' = [started EXCEPT ![i] = @ + 1]
  /\ UNCHANGED << closed, terminated >>

Stop(i) ==
  /\ IF closed \/ ~Reg(i) THEN UNCHANGED << tab, terminated >>
     ELSE tab' = [tab EXCEPT ![i] = NoneV] /\ terminated' = [terminated EXCEPT ![i] = @ + 1]
  /\ UNCHANGED << closed, started >>

\* Process(message of id i): the message is always emitted; it is the terminal event of a registered id
Process(i) ==
  /\ IF closed \/ ~Reg(i) THEN UNCHANGED << tab, terminated >>
     ELSE tab' = [tab EXCEPT ![i] = NoneV] /\ terminated' = [terminated EXCEPT ![i] = @ + 1]
  /\ UNCHANGED << closed, started >>

Collect(t) ==
  /\ IF closed THEN UNCHANGED << tab, terminated >>
     ELSE /\ tab' = [i \in Ids |-> IF Reg(i) /\ tab[i] < t THEN NoneV ELSE tab[i]]
          /\ terminated' = [i \in Ids |-> IF Reg(i) /\ tab[i] < t THEN terminated[i] + 1 ELSE terminated[i]]
  /\ UNCHANGED << closed, started >>

Close ==
  /\ IF closed THEN UNCHANGED << tab, terminated, closed >>
     ELSE /\ tab' = [i \in Ids |-> NoneV]
          /\ terminated' = [i \in Ids |-> terminated[i] + B2I(Reg(i))]
          /\ closed' = TRUE
  /\ UNCHANGED started

Next == \/ \E i \in Ids, d \in Int : Start(i, d)
        \/ \E i \in Ids : Stop(i) \/ Process(i)
        \/ \E t \in Int : Collect(t)
        \/ Close

Spec == Init /\ [][Next]_vars

THEOREM InitInv == Init => IndInv
  BY NoneAssm DEF Init, IndInv, TypeOK, Reg, B2I

THEOREM StepInv == IndInv /\ [Next]_vars => IndInv'
<1> SUFFICES ASSUME IndInv, [Next]_vars PROVE IndInv'
  OBVIOUS
<1>1. ASSUME NEW i \in Ids, NEW d \in Int, Start(i, d) PROVE IndInv'
  BY <1>1, NoneAssm DEF Start, IndInv, TypeOK, Reg, B2I
<1>2. ASSUME NEW i \in Ids, Stop(i) PROVE IndInv'
  BY <1>2, NoneAssm DEF Stop, IndInv, TypeOK, Reg, B2I
<1>2a. ASSUME NEW i \in Ids, Process(i) PROVE IndInv'
  BY <1>2a, NoneAssm DEF Process, IndInv, TypeOK, Reg, B2I
<1>3. ASSUME NEW t \in Int, Collect(t) PROVE IndInv'
  BY <1>3, NoneAssm DEF Collect, IndInv, TypeOK, Reg, B2I
<1>4. ASSUME Close PROVE IndInv'
  BY <1>4, NoneAssm DEF Close, IndInv, TypeOK, Reg, B2I
<1>5. ASSUME UNCHANGED vars PROVE IndInv'
  BY <1>5 DEF vars, IndInv, TypeOK, Reg, B2I
<1> QED BY <1>1, <1>2, <1>2a, <1>3, <1>4, <1>5 DEF Next

THEOREM Safety == Spec => []IndInv
  BY InitInv, StepInv, PTL DEF Spec
=============================================================================
