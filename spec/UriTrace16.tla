----------------------------- MODULE UriTrace16 -----------------------------
(***************************************************************************)
(* Trace validation for C16.                                               *)
(*  uri   {scheme, abs, in, o}: one input run in an isolated worker;       *)
(*        abs is the abstract string it instantiates (empty for replays).  *)
(*  batch {kind, count, returned, bad, worst_us, worst_len}: a swept batch.*)
(* R: every input produced a URI or an error - no panic, no dead worker,   *)
(*    no timeout - in time linear in its length.                           *)
(* I: accept/reject (and host/port when accepted) are UriImpl's.           *)
(***************************************************************************)
EXTENDS TraceBase, UriCore

VARIABLES l, seen

TimeBound(len) == 2000000 + 20 * len      \* microseconds: 2 s + 20 us per byte (generous: shared machine; 32-bit ints)

UriLine(n, e) ==
  /\ Require(e.o.out \in {"ok", "err"}, n, "did-not-return", [input |-> e.in, outcome |-> e.o.out])
  /\ (e.abs # <<>> /\ e.o.out \in {"ok", "err"}) =>
        LET ref == ParseOutcome(e.scheme, e.abs) IN
        /\ Expect(e.o.out = ref.r, n, "verdict-differs-from-UriImpl", [input |-> e.in, got |-> e.o.out, want |-> ref.r])

BatchLine(n, e) ==
  /\ Require(e.returned = e.count /\ e.bad = <<>>, n, "did-not-return",
             [kind |-> e.kind, count |-> e.count, returned |-> e.returned, bad |-> e.bad])
  /\ Require(e.worst_us <= TimeBound(e.worst_len), n, "time-not-linear", [us |-> e.worst_us, len |-> e.worst_len])

Init == RegInit /\ l = 1 /\ seen = 0
Next == /\ l <= NLines
        /\ LET e == Trace[l] IN
           /\ CASE e.k = "uri" -> UriLine(l, e)
                [] e.k = "batch" -> BatchLine(l, e)
                [] OTHER -> Reject(l, "unknown-line", e.k)
           /\ seen' = seen + (IF e.k = "uri" THEN 1 ELSE 0)
        /\ Consumed(l)
        /\ l' = l + 1
Spec == Init /\ [][Next]_<< l, seen >>
=============================================================================
