------------------------------ MODULE UriImpl ------------------------------
(***************************************************************************)
(* ParseURI as a state machine over UriCore (see there): TLC enumerates    *)
(* every abstract string up to MaxLen after every scheme and checks that   *)
(* the parse terminates with at most one default-port retry.               *)
(***************************************************************************)
EXTENDS UriCore

CONSTANTS MaxLen,       \* maximum number of symbols after the scheme
          Schemes,      \* scheme names explored
          Recursive     \* TRUE: the retry re-enters the parser (as uri.go did); FALSE: one retry, then fail

---------------------------------------------------------------------------
VARIABLES scheme, input, pc, opaque, query, depth, result
vars == << scheme, input, pc, opaque, query, depth, result >>

Strings == UNION { [1..n -> Sigma] : n \in 0..MaxLen }

Init == /\ scheme \in Schemes /\ input \in Strings
        /\ pc = "start" /\ opaque = <<>> /\ query = <<>> /\ depth = 0 /\ result = "none"

Finish(r) == pc' = "done" /\ result' = r /\ UNCHANGED << scheme, input, opaque, query, depth >>

Start ==
  /\ pc = "start"
  /\ LET u == UrlParse(input) IN
     IF u.err THEN Finish("err")
     ELSE IF scheme \notin Known THEN Finish("err")
     ELSE /\ pc' = "split" /\ opaque' = u.opaque /\ query' = u.query
          /\ UNCHANGED << scheme, input, depth, result >>

Split ==
  /\ pc = "split"
  /\ LET s == SplitHostPort(opaque) IN
     IF s.err = "missingport"
     THEN IF Recursive \/ depth = 0
          THEN pc' = "retry" /\ UNCHANGED << scheme, input, opaque, query, depth, result >>
          ELSE Finish("err")
     ELSE IF s.err # "" THEN Finish("err")
     ELSE IF s.host = <<>> THEN Finish("err")
     ELSE IF ~PortSyntaxOK(s.port) \/ ~PortInRange(s.port) THEN Finish("err")
     ELSE IF ~QueryOK(query) THEN Finish("err")
     ELSE Finish("ok")

\* append ":" + default port and go round again
Retry ==
  /\ pc = "retry"
  /\ opaque' = opaque \o <<":">> \o DefaultPort(scheme)
  /\ depth' = depth + 1
  /\ pc' = "split"
  /\ UNCHANGED << scheme, input, query, result >>

Next == Start \/ Split \/ Retry
Spec == Init /\ [][Next]_vars /\ WF_vars(Next)

\* Properties
BoundedRetry == depth <= 1
Terminates == <>(pc = "done")
DoneMeansResult == (pc = "done") => result \in {"ok", "err"}
\* the state machine and the functional form agree
AgreesWithFunction == (pc = "done" /\ ~Recursive) => result = ParseOutcome(scheme, input).r
=============================================================================
