//go:build verif

package stun_test

import (
	"bufio"
	"encoding/json"
	"errors"
	"os"
	"testing"
	"time"

	"github.com/pion/stun/v3"
)

type agCall struct {
	Op string `json:"op"`
	ID int    `json:"id,omitempty"`
	D  int    `json:"d"`
	T  int    `json:"t"`
	H  int    `json:"h,omitempty"`
}

type agVector struct {
	Tr    int      `json:"tr"`
	N     int      `json:"n"`
	Calls []agCall `json:"calls"`
	TL    int      `json:"tl"`
}

type agEvent struct {
	H    int    `json:"h"`
	ID   int    `json:"id"`
	Kind string `json:"kind"`
}

var errCustom = errors.New("custom stop reason")

func agID(k int) (id [stun.TransactionIDSize]byte) {
	// distinct ids; neighbours differ in one bit only
	id[0] = byte(k)
	id[1] = byte(k >> 8)
	id[11] = 0x5a
	return id
}

func agIDIndex(id [stun.TransactionIDSize]byte) int {
	k := int(id[0]) | int(id[1])<<8
	if agID(k) != id {
		return -1
	}
	return k
}

// agTimeline maps the abstract integer time points of the specification to concrete time.Time values.
// Every timeline is strictly monotone, so "deadline strictly before t" means the same in all of them:
// 0 = whole seconds, 1 = adjacent nanoseconds, 2 = extreme values (zero Time, centuries apart,
// around the Unix epoch, beyond the range of UnixNano).
var agTimeline = 0

func agTime(t int) time.Time {
	switch agTimeline {
	case 1:
		return time.Unix(1700000000, 999999990).Add(time.Duration(t))
	case 2:
		switch {
		case t <= 0:
			return time.Time{}.Add(time.Duration(t)) // t < 0 does not occur; zero Time for 0
		case t == 1:
			return time.Date(1600, 1, 1, 0, 0, 0, 0, time.UTC)
		case t == 2:
			return time.Unix(0, -1)
		case t == 3:
			return time.Unix(0, 0)
		default:
			return time.Date(2300, 1, 1, 0, 0, 0, 0, time.UTC).Add(time.Duration(t - 4))
		}
	default:
		return time.Unix(1000000+int64(t), 0)
	}
}

func agResult(err error) string {
	switch {
	case err == nil:
		return "ok"
	case errors.Is(err, stun.ErrAgentClosed):
		return "closed"
	case errors.Is(err, stun.ErrTransactionExists):
		return "exists"
	case errors.Is(err, stun.ErrTransactionNotExists):
		return "notexists"
	default:
		return "other:" + err.Error()
	}
}

func agKind(e stun.Event, cur *stun.Message) string {
	switch {
	case e.Error == nil && e.Message != nil && e.Message == cur:
		return "msg"
	case e.Error == nil:
		return "msg-other"
	case errors.Is(e.Error, stun.ErrTransactionStopped):
		return "stopped"
	case errors.Is(e.Error, errCustom):
		return "custom"
	case errors.Is(e.Error, stun.ErrTransactionTimeOut):
		return "timeout"
	case errors.Is(e.Error, stun.ErrAgentClosed):
		return "closed"
	default:
		return "other:" + e.Error.Error()
	}
}

// runAgentVector applies one call sequence to a fresh real Agent and records every call.
func runAgentVector(tw *traceWriter, v agVector) {
	var (
		evs []agEvent
		cur *stun.Message
	)
	mk := func(h int) stun.Handler {
		return func(e stun.Event) {
			evs = append(evs, agEvent{H: h, ID: agIDIndex(e.TransactionID), Kind: agKind(e, cur)})
		}
	}
	hs := map[int]stun.Handler{1: mk(1), 2: mk(2)}
	a := stun.NewAgent(hs[1])
	agTimeline = v.TL
	tw.emit(map[string]interface{}{"k": "new", "tr": v.Tr, "h": 1, "n": v.N, "tl": v.TL})
	for _, c := range v.Calls {
		evs = evs[:0]
		cur = nil
		var err error
		switch c.Op {
		case "start":
			err = a.Start(agID(c.ID), agTime(c.D))
		case "stop":
			err = a.Stop(agID(c.ID))
		case "stoperr":
			err = a.StopWithError(agID(c.ID), errCustom)
		case "process":
			cur = &stun.Message{TransactionID: agID(c.ID)}
			err = a.Process(cur)
		case "collect":
			err = a.Collect(agTime(c.T))
		case "sethandler":
			err = a.SetHandler(hs[c.H])
		case "close":
			err = a.Close()
		default:
			panic("bad op " + c.Op)
		}
		out := make([]agEvent, len(evs))
		copy(out, evs)
		tw.emit(map[string]interface{}{
			"k": "call", "tr": v.Tr, "op": c.Op, "id": c.ID, "d": c.D, "t": c.T, "h": c.H,
			"res": agResult(err), "evs": out,
		})
	}
}

// TestVerifC13 replays TLC-generated call sequences (VERIF_VECTORS) and seeded random ones on real Agents.
func TestVerifC13(t *testing.T) {
	tw := newTrace(t)
	defer tw.close()
	tr := 0
	if p := os.Getenv("VERIF_VECTORS"); p != "" {
		f, err := os.Open(p)
		if err != nil {
			t.Fatal(err)
		}
		sc := bufio.NewScanner(f)
		sc.Buffer(make([]byte, 1<<20), 1<<26)
		for sc.Scan() {
			var v agVector
			if err := json.Unmarshal(sc.Bytes(), &v); err != nil {
				t.Fatal(err)
			}
			tr++
			v.Tr = tr
			if v.TL < 0 {
				v.TL = tr % 3
			}
			runAgentVector(tw, v)
		}
		f.Close()
	}
	// many transactions expiring in one Collect (batch sizes around any internal capacity), then every id is probed
	for _, n := range []int{99, 100, 101, 250, 1000} {
		if envInt("VERIF_RANDOM_SEQS", 0) == 0 {
			break
		}
		v := agVector{N: n + 5, TL: n % 3}
		for id := 1; id <= n; id++ {
			v.Calls = append(v.Calls, agCall{Op: "start", ID: id, D: 1})
		}
		for id := n + 1; id <= n+5; id++ {
			v.Calls = append(v.Calls, agCall{Op: "start", ID: id, D: 9})
		}
		v.Calls = append(v.Calls, agCall{Op: "collect", T: 5})
		for id := 1; id <= n+5; id++ {
			v.Calls = append(v.Calls, agCall{Op: "stop", ID: id})
		}
		v.Calls = append(v.Calls, agCall{Op: "collect", T: 20}, agCall{Op: "close"})
		tr++
		v.Tr = tr
		runAgentVector(tw, v)
	}
	// seeded random sequences: many ids, deadlines on both sides of (and equal to) the collect time
	nseq := envInt("VERIF_RANDOM_SEQS", 0)
	ncalls := envInt("VERIF_RANDOM_CALLS", 1000)
	r := newRand(13)
	for s := 0; s < nseq; s++ {
		nid := 2 + r.Intn(49)
		v := agVector{N: nid, TL: s % 3}
		now := 10
		for i := 0; i < ncalls; i++ {
			id := 1 + r.Intn(nid)
			switch x := r.Intn(100); {
			case x < 35:
				v.Calls = append(v.Calls, agCall{Op: "start", ID: id, D: now + r.Intn(5) - 2})
			case x < 45:
				v.Calls = append(v.Calls, agCall{Op: "stop", ID: id})
			case x < 52:
				v.Calls = append(v.Calls, agCall{Op: "stoperr", ID: id})
			case x < 67:
				v.Calls = append(v.Calls, agCall{Op: "process", ID: id})
			case x < 90:
				now += r.Intn(3)
				v.Calls = append(v.Calls, agCall{Op: "collect", T: now + r.Intn(3) - 1})
			case x < 98:
				v.Calls = append(v.Calls, agCall{Op: "sethandler", H: 1 + r.Intn(2)})
			default:
				if i > ncalls/2 {
					v.Calls = append(v.Calls, agCall{Op: "close"})
				}
			}
		}
		tr++
		v.Tr = tr
		runAgentVector(tw, v)
	}
}
