"""C18 - pooled HMAC equals RFC 2104 HMAC for every key, message and reuse history."""
import json
import os
import re
import vlib
from props.c13 import edges_from, transition_cover, key


def run(ctx):
    rin = ctx.replay_input()
    vec = ctx.path("c18_vectors.ndjson")
    env = {}
    nseq = 0
    if rin is not None:
        with open(vec, "w") as fh:
            fh.write(json.dumps({"ops": [], "concrete": rin["lines"]}) + "\n")
    else:
        # design level: two pooled objects, all reuse histories (abstract digests)
        ctx.tlc_model("HmacPoolMC", "HmacPoolMC.cfg", workers=vlib.NCPU, heap_gb=6, name="HmacPool, 2 objects x 3 keys, all histories",
                      extra=())
        r = ctx.tlc_model("HmacPoolMC", "HmacPoolMC_one.cfg", workers=1, heap_gb=3, name="HmacPool, 1 object x 3 keys (transition cover source)")
        edges = edges_from(r["out"])
        seqs, nstates = transition_cover(edges)
        with open(vec, "w") as fh:
            for s in seqs:
                ops = list(s)
                # make the effect of the last step observable: sum afterwards when the object is held
                held = False
                for o in ops:
                    if o["op"] == "acquire":
                        held = True
                    elif o["op"] == "put":
                        held = False
                if held and ops[-1]["op"] != "sum":
                    ops.append({"op": "sum", "o": ops[-1]["o"]})
                fh.write(json.dumps({"ops": ops}) + "\n")
        nseq = len(seqs)
        vlib.log("GEN %d histories (transition cover of %d states / %d edges)" % (nseq, nstates, len(edges)))
        env = {"VERIF_RANDOM_SEQS": 40 if ctx.quick() else 600, "VERIF_RANDOM_OPS": 60 if ctx.quick() else 120}
    total = 0
    # single goroutine, GC off so that sync.Pool keeps its objects
    h = ctx.harness("hmac")
    trace = ctx.path("c18.ndjson")
    ctx.drive(h, "TestVerifC18", env=dict(env, VERIF_TRACE_OUT=trace, VERIF_VECTORS=vec, GOGC="off"), timeout=600)
    traces = [trace]
    if rin is None:
        # 16 goroutines sharing the pool, under the race detector
        hr = ctx.harness("hmac", race=True)
        trace2 = ctx.path("c18_race.ndjson")
        rc, out = ctx.drive(hr, "TestVerifC18", env={"VERIF_TRACE_OUT": trace2, "VERIF_GOROUTINES": 16,
                                                     "VERIF_CONC_SEQS": 6 if ctx.quick() else 60}, timeout=900, ok_rc=(0, 1, 66))
        if "DATA RACE" in out:
            rep = re.findall(r"WARNING: DATA RACE[\s\S]{0,1500}", out)[0]
            with open(trace2, "a") as fh:
                fh.write(json.dumps({"k": "race", "tr": "race", "report": rep}) + "\n")
        elif rc != 0:
            raise vlib.Inconclusive("race-enabled driver failed:\n" + out[-2000:])
        traces.append(trace2)
    bytr = {}
    for tf in traces:
        with open(tf) as fh:
            for ln in fh:
                e = json.loads(ln)
                bytr.setdefault(e["tr"], []).append(e)
        files = ctx.shard(tf, vlib.NCPU * 2, group_key="tr", prefix="s" + os.path.basename(tf))
        ctx.validate("HmacTrace", files, heap_gb=3, timeout=1800)
        ctx.add_samples(tf, 2, maxlen=600)
    total = len(bytr)

    def input_of(rj):
        return {"lines": bytr[rj["trace_line"]["tr"]]}
    ctx.input_of = input_of
    ctx.extra.update({"histories_replayed": nseq, "traces": total})
    ctx.assumptions += ["SHA-1/SHA-256/HMAC TLA+ modules are faithful transcriptions (validated against FIPS/RFC vectors)",
                        "data races are decided by the Go race detector on the executed schedules only",
                        "sync.Pool decides which object an Acquire returns; the trace records the identity and every history is validated whichever object came back"]
    return vlib.finish(ctx, traces_validated=total,
                       rule="transition cover of the one-object HmacPool graph (acquire/write/sum/reset/put x 3 key ids), instantiated with key lengths {0,1,20,63,64,65,128,300} for SHA-1 and SHA-256; seeded long histories with messages up to 4096 bytes; 16 goroutines under -race")
