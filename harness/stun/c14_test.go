//go:build verif

package stun_test

import (
	"fmt"
	"math/rand"
	"runtime"
	"sync"
	"sync/atomic"
	"testing"
	"time"

	"github.com/pion/stun/v3"
)

// ---- C14: concurrent histories of the real Agent, stamped with one atomic counter ----------------------

type linEvent struct {
	stamp int64
	rec   map[string]interface{}
}

type linRecorder struct {
	stamp int64
	mu    sync.Mutex
	evs   []linEvent
}

func (r *linRecorder) add(rec map[string]interface{}) {
	s := atomic.AddInt64(&r.stamp, 1)
	r.mu.Lock()
	r.evs = append(r.evs, linEvent{s, rec})
	r.mu.Unlock()
}

// goroutine-local context carried through handler closures via a map keyed by goroutine slot
type linG struct {
	id     int
	evs    []agEvent
	nested int
	r      *rand.Rand
	cur    *stun.Message
}

type linRun struct {
	rec     *linRecorder
	a       *stun.Agent
	hs      map[int]stun.Handler
	nids    int
	gmu     sync.Mutex
	byGoid  map[int64]*linG
	callers int32
	nestOK  bool
	nextG   int32
}

func goid() int64 {
	var buf [64]byte
	n := runtime.Stack(buf[:], false)
	var id int64
	fmt.Sscanf(string(buf[:n]), "goroutine %d ", &id)
	return id
}

func (x *linRun) cur() *linG {
	x.gmu.Lock()
	defer x.gmu.Unlock()
	return x.byGoid[goid()]
}

// call performs one agent call on behalf of logical goroutine g (par = 0 for top-level calls).
func (x *linRun) call(g *linG, gid int, par int, c agCall) {
	rec := map[string]interface{}{"k": "inv", "g": gid, "par": par, "op": c.Op, "id": c.ID, "d": c.D, "t": c.T, "h": c.H}
	saved := g.evs
	g.evs = nil
	x.rec.add(rec)
	var err error
	switch c.Op {
	case "start":
		err = x.a.Start(agID(c.ID), agTime(c.D))
	case "stop":
		err = x.a.Stop(agID(c.ID))
	case "stoperr":
		err = x.a.StopWithError(agID(c.ID), errCustom)
	case "process":
		m := &stun.Message{TransactionID: agID(c.ID)}
		prev := g.cur
		g.cur = m
		err = x.a.Process(m)
		g.cur = prev
	case "collect":
		err = x.a.Collect(agTime(c.T))
	case "sethandler":
		err = x.a.SetHandler(x.hs[c.H])
	case "close":
		err = x.a.Close()
	}
	out := make([]agEvent, len(g.evs))
	copy(out, g.evs)
	g.evs = saved
	x.rec.add(map[string]interface{}{"k": "ret", "g": gid, "res": agResult(err), "evs": out})
}

func (x *linRun) handler(h int) stun.Handler {
	return func(e stun.Event) {
		g := x.cur()
		if g == nil {
			return
		}
		kind := agKind(e, g.cur)
		g.evs = append(g.evs, agEvent{H: h, ID: agIDIndex(e.TransactionID), Kind: kind})
		// handlers may call back into the agent (not from Close: the agent holds its lock there)
		if x.nestOK && kind != "closed" && g.nested < 2 && g.r.Intn(4) == 0 {
			g.nested++
			ngid := int(atomic.AddInt32(&x.nextG, 1))
			id := 1 + g.r.Intn(x.nids)
			var c agCall
			switch g.r.Intn(3) {
			case 0:
				c = agCall{Op: "start", ID: id, D: g.r.Intn(5)}
			case 1:
				c = agCall{Op: "stop", ID: id}
			default:
				c = agCall{Op: "process", ID: id}
			}
			x.call(g, ngid, g.id, c)
			g.nested--
		}
	}
}

func randAgCall(r *rand.Rand, nids int, allowClose bool) agCall {
	id := 1 + r.Intn(nids)
	switch x := r.Intn(100); {
	case x < 30:
		return agCall{Op: "start", ID: id, D: r.Intn(5)}
	case x < 45:
		return agCall{Op: "stop", ID: id}
	case x < 52:
		return agCall{Op: "stoperr", ID: id}
	case x < 67:
		return agCall{Op: "process", ID: id}
	case x < 90:
		return agCall{Op: "collect", T: r.Intn(6)}
	case x < 98 || !allowClose:
		return agCall{Op: "sethandler", H: 1 + r.Intn(2)}
	default:
		return agCall{Op: "close"}
	}
}

func TestVerifC14(t *testing.T) {
	tw := newTrace(t)
	defer tw.close()
	nhist := envInt("VERIF_HISTORIES", 50)
	ng := envInt("VERIF_GOROUTINES", 8)
	width := envInt("VERIF_WIDTH", 4)
	segCalls := envInt("VERIF_SEG_CALLS", 30)
	nseg := envInt("VERIF_SEGMENTS", 4)
	agTimeline = 0
	for hi := 0; hi < nhist; hi++ {
		x := &linRun{rec: &linRecorder{}, nids: 3 + hi%2, byGoid: map[int64]*linG{}, nestOK: hi%3 != 2, nextG: int32(ng)}
		x.hs = map[int]stun.Handler{1: x.handler(1), 2: x.handler(2)}
		for seg := 0; seg < nseg; seg++ {
			x.a = stun.NewAgent(x.hs[1])
			x.rec.add(map[string]interface{}{"k": "new", "n": x.nids, "h": 1, "hist": hi, "seg": seg})
			sem := make(chan struct{}, width)
			var wg sync.WaitGroup
			var issued int32
			var completed int64
			stop := make(chan struct{})
			go func() { // watchdog
				last := int64(-1)
				for {
					select {
					case <-stop:
						return
					case <-time.After(5 * time.Second):
					}
					c := atomic.LoadInt64(&completed)
					if c == last {
						buf := make([]byte, 1<<16)
						n := runtime.Stack(buf, true)
						x.rec.add(map[string]interface{}{"k": "stuck", "report": string(buf[:n])})
						x.flush(tw, hi)
						tw.close()
						panic("stuck")
					}
					last = c
				}
			}()
			for g := 1; g <= ng; g++ {
				wg.Add(1)
				go func(g int) {
					defer wg.Done()
					lg := &linG{id: g, r: rand.New(rand.NewSource(seed()*100003 + int64(hi*1000+seg*100+g)))}
					x.gmu.Lock()
					x.byGoid[goid()] = lg
					x.gmu.Unlock()
					for {
						if int(atomic.AddInt32(&issued, 1)) > segCalls {
							break
						}
						c := randAgCall(lg.r, x.nids, seg == nseg-1)
						sem <- struct{}{} // width bound: outside the recorded interval
						x.call(lg, g, 0, c)
						<-sem
						atomic.AddInt64(&completed, 1)
						if lg.r.Intn(3) == 0 {
							runtime.Gosched()
						}
					}
					x.gmu.Lock()
					delete(x.byGoid, goid())
					x.gmu.Unlock()
				}(g)
			}
			wg.Wait() // barrier: every call of the segment has returned
			close(stop)
		}
		x.flush(tw, hi)
	}
}

func (x *linRun) flush(tw *traceWriter, hi int) {
	x.rec.mu.Lock()
	defer x.rec.mu.Unlock()
	evs := x.rec.evs
	// order by stamp
	for i := 1; i < len(evs); i++ {
		for j := i; j > 0 && evs[j-1].stamp > evs[j].stamp; j-- {
			evs[j-1], evs[j] = evs[j], evs[j-1]
		}
	}
	for _, e := range evs {
		e.rec["hist"] = hi
		tw.emit(e.rec)
	}
	x.rec.evs = nil
}
