SPECIFICATION Spec
POSTCONDITION WriteOut
CHECK_DEADLOCK FALSE
