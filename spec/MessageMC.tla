----------------------------- MODULE MessageMC -----------------------------
(***************************************************************************)
(* Exhaustive exploration of Message-building histories (C03, C08).        *)
(* Start classes: an unused Message whose storage is pre-filled with a     *)
(* poison byte, or a Message that successfully decoded one of a family of  *)
(* inputs (canonical, garbage padding, trailing bytes, legacy 0x8020).     *)
(* Invariants: after every building operation the wire bytes are coherent  *)
(* with the struct (and fully canonical when the history started from      *)
(* canonical bytes), and no poison byte is ever visible in Raw.            *)
(* Every transition is exported ("EDGE ...") for the replay.               *)
(***************************************************************************)
EXTENDS Message, TLC, Json

CONSTANTS MaxDepth, ValLens

Poison == 165
Storage == 48

\* cheap injective stand-ins for HMAC-SHA1 / CRC-32 (the real ones are used in trace validation)
RECURSIVE SumBytes(_, _)
SumBytes(b, i) == IF i > Len(b) THEN 0 ELSE ((b[i] * ((i % 7) + 1)) + SumBytes(b, i + 1)) % 163
FakeMac(key, b) == [i \in 1..20 |-> (SumBytes(b, 1) + i + key) % 163]
FakeCrc(b) == [i \in 1..4 |-> (SumBytes(b, 1) + 3 * i) % 163]

Val(n) == [i \in 1..n |-> 64 + n]
Tid1 == [i \in 1..12 |-> i]
Tid2 == [i \in 1..12 |-> 100 + i]

Hdr(t, n, tid) == U16Bytes(t) \o U16Bytes(n) \o << 33, 18, 164, 66 >> \o tid
\* decode inputs
InCanon    == Hdr(1, 8, Tid1) \o << 0, 6, 0, 3, 70, 71, 72, 0 >>
InGarbage  == Hdr(1, 8, Tid1) \o << 0, 6, 0, 3, 70, 71, 72, 99 >>                 \* non-zero padding
InTrailing == Hdr(1, 4, Tid1) \o << 0, 6, 0, 0 >> \o << 9, 9, 9 >>                \* bytes after the declared length
InLegacy   == Hdr(49153, 8, Tid1) \o << 128, 32, 0, 4, 1, 2, 3, 4 >>              \* 0x8020, leading type bits set
InLong     == Hdr(257, 24, Tid2) \o << 0, 6, 0, 5, 81, 82, 83, 84, 85, 0, 0, 0, 128, 34, 0, 7, 91, 92, 93, 94, 95, 96, 97, 0 >>
Inputs == << InCanon, InGarbage, InTrailing, InLegacy, InLong >>
CanonInput(k) == k \in {1, 5}

VARIABLES m, canon, built, depth, act
vars == << m, canon, built, depth, act >>
\* depth is part of the view: with several workers BFS is not strictly level by level, and a state must
\* keep the successors its smallest depth allows
View == << m, canon, built, depth >>

Fresh == [NewMsg EXCEPT !.spare = Fill(Storage, Poison)]

Init == /\ m = Fresh /\ canon = TRUE /\ built = FALSE /\ depth = 0 /\ act = [op |-> "new"]

HasHeader20 == Len(m.raw) >= 20
Fits(n) == 20 + m.length + n <= 120

Do(m2, a, isBuild, c) ==
  /\ depth < MaxDepth
  /\ m' = m2 /\ act' = a /\ built' = isBuild /\ canon' = c /\ depth' = depth + 1

Next ==
  \/ Do(WriteHeader(Reset(m)), [op |-> "build"], TRUE, TRUE)
  \/ (m.raw = <<>> \/ HasHeader20) /\ Do(WriteHeader(m), [op |-> "writeheader"], m.raw = <<>> \/ built, canon)
  \/ Do(Encode(m), [op |-> "encode"], TRUE, TRUE)
  \/ \E k \in 1..Len(Inputs) : Do(Decode(m, Inputs[k]), [op |-> "decode", k |-> k], FALSE, CanonInput(k))
  \/ /\ HasHeader20
     /\ \/ \E t \in {6, 32802}, n \in ValLens : Fits(8 + n) /\ Do(Add(m, t, Val(n)), [op |-> "add", t |-> t, n |-> n], TRUE, canon)
        \/ \E mc \in {<< 1, 0 >>, << 4095, 3 >>} : Do(SetType(m, mc[1], mc[2]), [op |-> "settype", m |-> mc[1], c |-> mc[2]], TRUE, canon)
        \/ Do(SetTID(m, Tid2), [op |-> "settid"], TRUE, canon)
        \/ Fits(24) /\ Do(AddIntegrity(m, 5, FakeMac), [op |-> "integrity"], TRUE, canon)
        \/ Fits(8) /\ Do(AddFingerprint(m, FakeCrc), [op |-> "fingerprint"], TRUE, canon)
        \/ Do(WriteLength(m), [op |-> "writelength"], built, canon)
        \/ Do(WriteType(m), [op |-> "writetype"], built, canon)

Spec == Init /\ [][Next]_vars

\* C03 on the design: struct = wire after every building operation; full canonical form when the
\* history started from canonical bytes
CoherentAfterBuild == built => (StructMatchesWireX(m, canon) /\ (canon => (Coherent(m) /\ IsCanonical(m.raw))))
\* C08 on the design: retained storage never becomes visible
NoLeak == \A i \in 1..Len(m.raw) : m.raw[i] # Poison
\* attribute values of the struct never contain poison either
NoLeakAttrs == \A i \in 1..Len(m.attrs) : \A j \in 1..Len(m.attrs[i].val) : m.attrs[i].val[j] # Poison

ASSUME PrintT("INPUTS " \o ToJson(Inputs))

SJ(s, c, b) == [raw |-> s.raw, spare |-> s.spare, length |-> s.length, t |-> << s.method, s.class >>,
                tid |-> s.tid[1], na |-> Len(s.attrs), canon |-> c, built |-> b]
PrintEdge == PrintT("EDGE " \o ToJson([f |-> SJ(m, canon, built), a |-> act', t |-> SJ(m', canon', built')]))
=============================================================================
