SPECIFICATION SimSpec
CONSTANTS
  s1 = s1
  s2 = s2
  o1 = o1
  o2 = o2
  w1 = w1
  w2 = w2
  None = None
  Starts = {s1, s2}
  IdOf <- IdOfDef
  Objs = {o1, o2}
  MaxAttempts = 7
  MaxClock = 4
  FailBudget = 1
  RespBudget = 2
  JunkBudget = 1
  CloseConn = TRUE
  HasFallback = TRUE
  AllowClose = TRUE
  AllowDo = TRUE
  AllowIndicate = TRUE
  WObjs = {w1, w2}
  DupMode = FALSE
  DupStart = s2
  PoolOnError = FALSE
  IdleCollects = 0
  RtoChanges = 1
  DeadlineTicks = FALSE
  OneAtATime = TRUE
  SafePool = TRUE
  Strict = FALSE
  Depth = 60
INVARIANT AtMostOnce
INVARIANT RoutedByID
INVARIANT Emit
CHECK_DEADLOCK FALSE
