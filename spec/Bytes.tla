------------------------------- MODULE Bytes -------------------------------
(***************************************************************************)
(* Byte strings and 32-bit words for the RFC reference layer.              *)
(*                                                                         *)
(* A byte string is a sequence over 0..255 (1-indexed, as every TLA+       *)
(* sequence).  TLC integers are Java ints, so a 32-bit word is the pair    *)
(* <<hi16, lo16>>; every intermediate value stays below 2^31.              *)
(***************************************************************************)
EXTENDS Integers, Sequences, SequencesExt, Bitwise

Byte == 0..255

IsBytes(s) == /\ DOMAIN s = 1..Len(s)
              /\ \A i \in 1..Len(s) : s[i] \in Byte

\* bytes b[from..to] (1-indexed, inclusive); empty when to < from
Slice(b, from, to) == SubSeq(b, from, to)

\* offset-based view used by the wire modules: n bytes starting at 0-based offset off
Take(b, off, n) == SubSeq(b, off + 1, off + n)

Zeros(n) == [i \in 1..n |-> 0]
Fill(n, v) == [i \in 1..n |-> v]

\* big-endian 16-bit value at 0-based offset off
U16At(b, off) == b[off + 1] * 256 + b[off + 2]
U16Bytes(v) == << (v \div 256) % 256, v % 256 >>

\* number of padding bytes after a value of n bytes (RFC 5389 s15: 32-bit alignment)
PadLen(n) == (4 - (n % 4)) % 4
Pad4(n) == n + PadLen(n)

---------------------------------------------------------------------------
(* 32-bit words *)

W32(hi, lo) == << hi, lo >>
Hi(w) == w[1]
Lo(w) == w[2]
W0 == << 0, 0 >>
IsW32(w) == w[1] \in 0..65535 /\ w[2] \in 0..65535

U32At(b, off) == << U16At(b, off), U16At(b, off + 2) >>
U32Bytes(w) == U16Bytes(w[1]) \o U16Bytes(w[2])

\* little-endian variants (MD5)
U32AtLE(b, off) == << b[off + 4] * 256 + b[off + 3], b[off + 2] * 256 + b[off + 1] >>
U32BytesLE(w) == << w[2] % 256, w[2] \div 256, w[1] % 256, w[1] \div 256 >>

Xor32(a, b) == << a[1] ^^ b[1], a[2] ^^ b[2] >>
And32(a, b) == << a[1] & b[1], a[2] & b[2] >>
Or32(a, b)  == << a[1] | b[1], a[2] | b[2] >>
Not32(a)    == << 65535 - a[1], 65535 - a[2] >>

Add32(a, b) ==
  LET lo == a[2] + b[2]
      hi == a[1] + b[1] + (lo \div 65536)
  IN << hi % 65536, lo % 65536 >>

\* logical shift right by n in 0..31
Shr32(a, n) ==
  IF n = 0 THEN a
  ELSE IF n >= 16 THEN << 0, a[1] \div (2 ^ (n - 16)) >>
  ELSE << a[1] \div (2 ^ n),
          ((a[1] % (2 ^ n)) * (2 ^ (16 - n))) + (a[2] \div (2 ^ n)) >>

\* shift left by n in 0..31 (bits shifted out are dropped)
Shl32(a, n) ==
  IF n = 0 THEN a
  ELSE IF n >= 16 THEN << (a[2] % (2 ^ (32 - n))) * (2 ^ (n - 16)), 0 >>
  ELSE << ((a[1] % (2 ^ (16 - n))) * (2 ^ n)) + (a[2] \div (2 ^ (16 - n))),
          (a[2] % (2 ^ (16 - n))) * (2 ^ n) >>

Rotl32(a, n) == IF n % 32 = 0 THEN a ELSE Or32(Shl32(a, n % 32), Shr32(a, 32 - (n % 32)))
Rotr32(a, n) == Rotl32(a, (32 - (n % 32)) % 32)

\* bytewise XOR of equal-length byte strings
XorBytes(a, b) == [i \in 1..Len(a) |-> a[i] ^^ b[i]]

=============================================================================
