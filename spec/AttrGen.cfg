SPECIFICATION Spec
INVARIANT RoundTrip
INVARIANT Export
CHECK_DEADLOCK FALSE
