//go:build verif

package stun_test

import (
	"bufio"
	"bytes"
	"strings"
	"encoding/json"
	"fmt"
	"os"
	"runtime"
	"sync/atomic"
	"testing"
	"time"
	"unsafe"

	"github.com/pion/stun/v3"
)

// ---- decoding driver shared by C01 and C02 -------------------------------------------------

type wireStruct struct {
	Decl  int   `json:"decl"`
	Lens  []int `json:"lens"`
	Tiled bool  `json:"tiled"`
}

type decOutcome struct {
	R     string     `json:"r"` // ok | err | panic
	M     int        `json:"m"`
	C     int        `json:"c"`
	Len   int        `json:"len"`
	TID   []int      `json:"tid"`
	Attrs [][3]int   `json:"attrs"` // type, length, offset of Value relative to Raw
	ALen  []int      `json:"alen"`  // len(Value) per attribute
	Vals  [][]int    `json:"vals"`  // value bytes (nil when the message is large)
	RawEq bool       `json:"raweq"` // Raw[:len(input)] holds the input bytes
	RawN  int        `json:"rawn"`  // len(Raw)
	Look  *lookupRec `json:"look,omitempty"`
	Panic string     `json:"panic,omitempty"`
}

type lookupRec struct {
	Get      [][4]int     `json:"get"`      // type, found, offset, len
	Contains [][2]int     `json:"contains"` // type, bool
	ForEach  []foreachRec `json:"foreach"`
}

type foreachRec struct {
	T      int      `json:"t"`
	FailAt int      `json:"failat"` // 0 = never
	Seen   [][2]int `json:"seen"`   // per visit: len(m.Attributes) during the callback, offset of Get(t) inside it
	Err    bool     `json:"err"`
	After  [][3]int `json:"after"`
}

type decGroup struct {
	Eps    []string   `json:"eps"`
	Allocs []int      `json:"allocs"`
	O      decOutcome `json:"o"`
}

var entryPoints = []string{"Decode", "Message.Decode", "Write", "UnmarshalBinary", "GobDecode", "ReadFrom", "CloneTo",
	"Decode/reused", "Write/reused", "ReadFrom/reused"} // the last three decode into a Message that held another message before

var currentInput atomic.Value

func valueOffset(raw, v []byte) int {
	// a zero-length value exposes no bytes; Go does not guarantee where such a slice points
	// (slicing down to zero capacity keeps the old base pointer), so it has no offset
	if cap(raw) == 0 || len(v) == 0 {
		return -1
	}
	return int(uintptr(unsafe.Pointer(unsafe.SliceData(v))) - uintptr(unsafe.Pointer(unsafe.SliceData(raw))))
}

func snapshotAttrs(m *stun.Message) [][3]int {
	out := make([][3]int, len(m.Attributes))
	for i, a := range m.Attributes {
		out[i] = [3]int{int(a.Type), int(a.Length), valueOffset(m.Raw, a.Value)}
	}
	return out
}

// callEntry runs one decoding entry point on a copy of data placed in a buffer with `spare` bytes of capacity
// beyond the data (filled with 0xA5 so that reads beyond the message are visible).
func callEntry(ep string, data []byte, spare int, wantLook bool) (decOutcome, int) {
	return callEntryN(ep, data, spare, wantLook, 0)
}

func callEntryN(ep string, data []byte, spare int, wantLook bool, depth int) (o decOutcome, alloc int) {
	buf := make([]byte, len(data)+spare)
	copy(buf, data)
	for i := len(data); i < len(buf); i++ {
		buf[i] = 0xA5
	}
	in := buf[:len(data):len(buf)]
	m := new(stun.Message)
	if strings.HasSuffix(ep, "/reused") {
		// the destination last held a three-attribute message (and keeps its storage)
		prev := stun.MustBuild(stun.BindingSuccess, stun.TransactionID, stun.NewUsername("previous-user"),
			stun.NewSoftware("previous software"), stun.NewNonce("previous-nonce"))
		if err := stun.Decode(prev.Raw, m); err != nil {
			panic(err)
		}
		ep = strings.TrimSuffix(ep, "/reused")
	}
	var err error
	var ms0, ms1 runtime.MemStats
	func() {
		defer func() {
			if r := recover(); r != nil {
				o.R = "panic"
				o.Panic = fmt.Sprint(r)
			}
		}()
		switch ep {
		case "Decode":
			runtime.ReadMemStats(&ms0)
			err = stun.Decode(in, m)
			runtime.ReadMemStats(&ms1)
		case "Message.Decode":
			m.Raw = in
			runtime.ReadMemStats(&ms0)
			err = m.Decode()
			runtime.ReadMemStats(&ms1)
		case "Write":
			runtime.ReadMemStats(&ms0)
			_, err = m.Write(in)
			runtime.ReadMemStats(&ms1)
		case "UnmarshalBinary":
			runtime.ReadMemStats(&ms0)
			err = m.UnmarshalBinary(in)
			runtime.ReadMemStats(&ms1)
		case "GobDecode":
			runtime.ReadMemStats(&ms0)
			err = m.GobDecode(in)
			runtime.ReadMemStats(&ms1)
		case "ReadFrom":
			// ReadFrom reads at most cap(Raw) bytes: give it a buffer that holds the whole input
			if cap(m.Raw) < len(data)+spare+1 {
				m.Raw = append(make([]byte, 0, len(data)+spare+1), m.Raw...)
			}
			rd := bytes.NewReader(in)
			runtime.ReadMemStats(&ms0)
			_, err = m.ReadFrom(rd)
			runtime.ReadMemStats(&ms1)
		case "CloneTo":
			src := &stun.Message{Raw: in}
			runtime.ReadMemStats(&ms0)
			err = src.CloneTo(m)
			runtime.ReadMemStats(&ms1)
		}
	}()
	alloc = int(ms1.TotalAlloc - ms0.TotalAlloc)
	if depth < 2 && alloc > 2*len(data)+512 {
		// TotalAlloc is process-wide: other goroutines of the test binary may allocate meanwhile. A real
		// allocation of the call repeats, noise does not: keep the smallest of up to three measurements.
		o2, alloc2 := callEntryN(ep, data, spare, wantLook, depth+1)
		if alloc2 < alloc {
			return o2, alloc2
		}
	}
	if o.R == "panic" {
		return o, alloc
	}
	if err != nil {
		o.R = "err"
		return o, alloc
	}
	o.R = "ok"
	o.M = int(m.Type.Method)
	o.C = int(m.Type.Class)
	o.Len = int(m.Length)
	o.TID = ints(m.TransactionID[:])
	o.Attrs = snapshotAttrs(m)
	o.ALen = make([]int, len(m.Attributes))
	for i, a := range m.Attributes {
		o.ALen[i] = len(a.Value)
	}
	o.RawN = len(m.Raw)
	o.RawEq = len(m.Raw) >= len(data) && bytes.Equal(m.Raw[:len(data)], data)
	if len(data) <= 2048 {
		o.Vals = make([][]int, len(m.Attributes))
		for i, a := range m.Attributes {
			o.Vals[i] = ints(a.Value)
		}
	}
	if wantLook && len(m.Attributes) <= 8 {
		o.Look = doLookups(m)
	}
	return o, alloc
}

func doLookups(m *stun.Message) *lookupRec {
	lr := &lookupRec{}
	types := []int{}
	seen := map[int]bool{}
	for _, a := range m.Attributes {
		if !seen[int(a.Type)] {
			seen[int(a.Type)] = true
			types = append(types, int(a.Type))
		}
	}
	for _, extra := range []int{0x7ff1, 0x8020, 0x0020} {
		if !seen[extra] {
			seen[extra] = true
			types = append(types, extra)
		}
	}
	for _, t := range types {
		v, err := m.Get(stun.AttrType(t))
		if err != nil {
			lr.Get = append(lr.Get, [4]int{t, 0, -1, 0})
		} else {
			lr.Get = append(lr.Get, [4]int{t, 1, valueOffset(m.Raw, v), len(v)})
		}
		c := 0
		if m.Contains(stun.AttrType(t)) {
			c = 1
		}
		lr.Contains = append(lr.Contains, [2]int{t, c})
		count := 0
		for _, a := range m.Attributes {
			if int(a.Type) == t {
				count++
			}
		}
		for failAt := 0; failAt <= count; failAt++ {
			fr := foreachRec{T: t, FailAt: failAt}
			visit := 0
			err := m.ForEach(stun.AttrType(t), func(mm *stun.Message) error {
				visit++
				off := -1
				if v, gerr := mm.Get(stun.AttrType(t)); gerr == nil {
					off = valueOffset(mm.Raw, v)
				}
				fr.Seen = append(fr.Seen, [2]int{len(mm.Attributes), off})
				if visit == failAt {
					return errCustom
				}
				return nil
			})
			fr.Err = err != nil
			fr.After = snapshotAttrs(m)
			lr.ForEach = append(lr.ForEach, fr)
		}
	}
	return lr
}

func outcomeKey(o decOutcome) string {
	b, _ := json.Marshal(o)
	return string(b)
}

func emitDecode(tw *traceWriter, src string, data []byte, spare int) {
	currentInput.Store(append([]byte(nil), data...))
	var groups []decGroup
	idx := map[string]int{}
	for i, ep := range entryPoints {
		o, alloc := callEntry(ep, data, spare, i == 0)
		look := o.Look
		o.Look = nil
		k := outcomeKey(o)
		if j, ok := idx[k]; ok {
			groups[j].Eps = append(groups[j].Eps, ep)
			groups[j].Allocs = append(groups[j].Allocs, alloc)
			continue
		}
		idx[k] = len(groups)
		o.Look = look
		groups = append(groups, decGroup{Eps: []string{ep}, Allocs: []int{alloc}, O: o})
	}
	ismsg := 0
	if stun.IsMessage(data) {
		ismsg = 1
	}
	tw.emit(map[string]interface{}{
		"k": "dec", "src": src, "in": ints(data), "n": len(data), "spare": spare, "ismsg": ismsg, "groups": groups,
	})
}

// materialise instantiates a TLC-generated length structure with random content.
func materialise(r interface{ Intn(int) int }, s wireStruct, delta int, goodCookie bool) []byte {
	d := s.Decl
	if d == 65535 {
		d = 64
	}
	b := make([]byte, 20+d+17)
	for i := range b {
		b[i] = byte(r.Intn(256))
	}
	// message type: any 16-bit value (the two leading bits are tolerated)
	b[2] = byte(s.Decl >> 8)
	b[3] = byte(s.Decl)
	b[4], b[5], b[6], b[7] = 0x21, 0x12, 0xA4, 0x42
	if !goodCookie {
		b[4+r.Intn(4)] ^= byte(1 << uint(r.Intn(8)))
	}
	p := 20
	end := 20 + d
	for _, n := range s.Lens {
		if end-p < 4 {
			break
		}
		switch r.Intn(6) {
		case 0:
			b[p], b[p+1] = 0x80, 0x20
		case 1:
			b[p], b[p+1] = 0x00, 0x20
		case 2:
			b[p], b[p+1] = 0x00, byte(1+r.Intn(0x30))
		}
		b[p+2] = byte(n >> 8)
		b[p+3] = byte(n)
		p += 4 + (n+3)/4*4
		if p > end {
			break
		}
	}
	n := 20 + d + delta
	if n < 0 {
		n = 0
	}
	if n > len(b) {
		n = len(b)
	}
	return b[:n]
}

// TestVerifWire drives every decoding entry point over TLC-generated structures and seeded random/mutated inputs.
func TestVerifWire(t *testing.T) {
	tw := newTrace(t)
	defer tw.close()
	// watchdog: a call that never returns becomes a trace line, not a hang
	done := make(chan struct{})
	defer close(done)
	var progress int64
	go func() {
		last := int64(-1)
		for {
			select {
			case <-done:
				return
			case <-time.After(20 * time.Second):
			}
			p := atomic.LoadInt64(&progress)
			if p == last {
				in, _ := currentInput.Load().([]byte)
				tw.emit(map[string]interface{}{"k": "timeout", "in": ints(in)})
				tw.close()
				os.Exit(3)
			}
			last = p
		}
	}()
	r := newRand(1)
	spares := []int{0, 1 + r.Intn(64)}
	deltas := []int{-21, -1, 0, 1, 3, 4, 17}
	if p := os.Getenv("VERIF_VECTORS"); p != "" {
		f, err := os.Open(p)
		if err != nil {
			t.Fatal(err)
		}
		sc := bufio.NewScanner(f)
		sc.Buffer(make([]byte, 1<<20), 1<<26)
		for sc.Scan() {
			line := sc.Bytes()
			if bytes.HasPrefix(line, []byte(`{"raw"`)) {
				// replay of a concrete input
				var rv struct {
					Raw   []int `json:"raw"`
					Spare int   `json:"spare"`
				}
				if err := json.Unmarshal(line, &rv); err != nil {
					t.Fatal(err)
				}
				emitDecode(tw, "replay", unints(rv.Raw), rv.Spare)
				continue
			}
			var s wireStruct
			if err := json.Unmarshal(line, &s); err != nil {
				t.Fatal(err)
			}
			for _, d := range deltas {
				if d != 0 && !s.Tiled && r.Intn(3) != 0 {
					continue // non-tiled structures: a sample of the buffer classes
				}
				data := materialise(r, s, d, true)
				emitDecode(tw, "gen", data, spares[r.Intn(2)])
				atomic.AddInt64(&progress, 1)
			}
			if r.Intn(4) == 0 {
				emitDecode(tw, "gen", materialise(r, s, 0, false), spares[r.Intn(2)])
			}
		}
		f.Close()
	}
	// seeded random byte strings
	nrand := envInt("VERIF_RANDOM", 0)
	for i := 0; i < nrand; i++ {
		n := r.Intn(120)
		if i%50 == 0 {
			n = r.Intn(3000)
		}
		b := make([]byte, n)
		for j := range b {
			b[j] = byte(r.Intn(256))
		}
		if n >= 20 && i%2 == 0 {
			b[4], b[5], b[6], b[7] = 0x21, 0x12, 0xA4, 0x42
			if i%4 == 0 {
				l := n - 20 - r.Intn(4)
				if l < 0 {
					l = 0
				}
				b[2], b[3] = byte(l>>8), byte(l)
			}
		}
		emitDecode(tw, "rand", b, spares[r.Intn(2)])
		atomic.AddInt64(&progress, 1)
	}
	// mutations of valid messages
	nmut := envInt("VERIF_MUTATED", 0)
	for i := 0; i < nmut; i++ {
		m := new(stun.Message)
		setters := []stun.Setter{stun.NewType(stun.Method(r.Intn(4096)), stun.MessageClass(r.Intn(4))), stun.TransactionID}
		na := r.Intn(6)
		for j := 0; j < na; j++ {
			v := make([]byte, r.Intn(24))
			for k := range v {
				v[k] = byte(r.Intn(256))
			}
			setters = append(setters, stun.RawAttribute{Type: stun.AttrType(r.Intn(0x30)), Value: v})
		}
		if r.Intn(3) == 0 {
			setters = append(setters, stun.Fingerprint)
		}
		if err := m.Build(setters...); err != nil {
			t.Fatal(err)
		}
		b := append([]byte(nil), m.Raw...)
		switch r.Intn(6) {
		case 0: // bit flip
			if len(b) > 0 {
				b[r.Intn(len(b))] ^= byte(1 << uint(r.Intn(8)))
			}
		case 1: // header length +-1..3
			l := int(b[2])<<8 | int(b[3])
			l += r.Intn(7) - 3
			if l < 0 {
				l = 0
			}
			b[2], b[3] = byte(l>>8), byte(l)
		case 2: // attribute length field +-1..3
			if len(b) >= 24 {
				p := 20
				l := int(b[p+2])<<8 | int(b[p+3])
				l += r.Intn(7) - 3
				if l < 0 {
					l = 0
				}
				b[p+2], b[p+3] = byte(l>>8), byte(l)
			}
		case 3: // truncation
			b = b[:r.Intn(len(b)+1)]
		case 4: // extension
			ext := make([]byte, 1+r.Intn(9))
			b = append(b, ext...)
		case 5: // none: valid message
		}
		emitDecode(tw, "mut", b, spares[r.Intn(2)])
		atomic.AddInt64(&progress, 1)
	}
	// large inputs (few: TLC evaluates the reference parse on each)
	nbig := envInt("VERIF_BIG", 0)
	for i := 0; i < nbig; i++ {
		n := 20 + 65535 - r.Intn(8)*4
		if i%3 == 1 {
			n = 20 + 65535 + 20
		}
		b := make([]byte, n)
		for j := range b {
			b[j] = 0
		}
		b[4], b[5], b[6], b[7] = 0x21, 0x12, 0xA4, 0x42
		body := n - 20
		if body > 65535 {
			body = 65535
		}
		body -= body % 4
		if i%3 == 2 {
			body = 65532
		}
		b[2], b[3] = byte(body>>8), byte(body)
		// tile the body with attributes of pseudo-random small lengths; the last one fills the rest
		p := 20
		for p+4 <= 20+body {
			rem := 20 + body - p - 4
			l := r.Intn(2000)
			if i%3 == 0 {
				l = 0 // maximum attribute count
			}
			if (l+3)/4*4 > rem {
				l = rem
			}
			b[p+1] = byte(1 + r.Intn(40))
			b[p+2], b[p+3] = byte(l>>8), byte(l)
			p += 4 + (l+3)/4*4
		}
		emitDecode(tw, "big", b, spares[r.Intn(2)])
		atomic.AddInt64(&progress, 1)
	}
}
