"""C09 - setters reject unrepresentable values and fail atomically."""
import json
import vlib


def run(ctx):
    rin = ctx.replay_input()
    vec = ctx.path("c09_vectors.ndjson")
    nscen = 0
    if rin is not None:
        with open(vec, "w") as fh:
            fh.write(json.dumps(rin) + "\n")
    else:
        r = ctx.tlc_model("ScenGen", "ScenGen_C09.cfg", workers=1, heap_gb=2, name="setter x preceding content")
        scens = [json.loads(json.loads(ln)[4:]) for ln in r["out"].splitlines() if ln.startswith('"VEC ')]
        if not scens:
            raise vlib.Inconclusive("no scenarios exported")
        with open(vec, "w") as fh:
            for s in scens:
                fh.write(json.dumps(s) + "\n")
        nscen = len(scens)
    total = 0
    tagsets = [("verif",)] if ctx.quick() or rin is not None else [("verif",), ("verif", "debug")]
    for tags in tagsets:
        h = ctx.harness("stun", tags=tags)
        trace = ctx.path("c09_%s.ndjson" % "_".join(tags))
        ctx.drive(h, "TestVerifC09", env={"VERIF_TRACE_OUT": trace, "VERIF_VECTORS": vec}, timeout=900)
        files = ctx.shard(trace, vlib.NCPU * 2)
        ctx.validate("SetTrace", files, heap_gb=3, timeout=1800)
        ctx.add_samples(trace, 3, maxlen=600)
        total += sum(1 for _ in open(trace))

    def input_of(rj):
        tl = rj["trace_line"]
        if tl["k"] == "set":
            return {"replay": {"setter": tl["setter"], "n": tl["n"]}, "ctx": tl["ctx"]}
        return {"build": tl["list"]}
    ctx.input_of = input_of
    ctx.extra.update({"scenarios": nscen, "calls_recorded": total, "build_tags": ["+".join(t) for t in tagsets]})
    ctx.assumptions += ["limits: USERNAME 513 bytes, REALM/NONCE/SOFTWARE/reason 763 bytes (RFC 5389 s15); default-reason table transcribed from the RFCs in StunAttrs.DefaultReasonCodes"]
    return vlib.finish(ctx, traces_validated=total,
                       rule="setter(9) x preceding content(5) from TLC, swept over text lengths 0..limit+300 (both sides of each limit densely), IP lengths 0..20, error codes 0..999; random Build lists with 0..2 rejecting setters")
