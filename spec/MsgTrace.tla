------------------------------ MODULE MsgTrace ------------------------------
(***************************************************************************)
(* Trace validation for C03 (and the I layer shared with C08): every line  *)
(* is one operation on a real Message with the complete observable state   *)
(* before and after it (struct fields, Raw, the retained bytes behind Raw, *)
(* the library's own re-decode and Equal).                                 *)
(* R (C03): after a building operation the observed wire bytes are well    *)
(*   formed and equal to the struct, by the independent parse; fully       *)
(*   canonical when the history is canonical; Equal agrees; Encode of a    *)
(*   decoded message yields the canonical bytes.                           *)
(* I: the observed post-state is Message.tla's step applied to the         *)
(*   observed pre-state (single-step conformance, incl. retained bytes).   *)
(***************************************************************************)
EXTENDS TraceBase, Message, StunAuth, StunAttrs

VARIABLE l

F(r, f, d) == IF f \in DOMAIN r THEN r[f] ELSE d

ToMsg(s) == Msg(s.method, s.class, s.length, s.tid,
                [i \in 1..Len(s.attrs) |-> A(s.attrs[i][1], s.attrs[i][2], s.attrs[i][4])], s.raw, s.spare)

Building(op) == op.op \notin {"decode", "write"}
AddLike(op) == op.op \in {"add", "integrity", "fingerprint", "username", "xoraddr", "mapped", "errorcode", "unknown"}

ModelStep(m, op) ==
  CASE op.op = "build"       -> WriteHeader(Reset(m))
    [] op.op = "writeheader" -> WriteHeader(m)
    [] op.op = "encode"      -> Encode(m)
    [] op.op \in {"decode", "write"} -> Decode(m, op.data)
    [] op.op = "add"         -> Add(m, F(op, "t", 0), F(op, "data", <<>>))
    [] op.op = "settype"     -> SetType(m, F(op, "m", 0), F(op, "c", 0))
    [] op.op = "settid"      -> SetTID(m, op.data)
    [] op.op = "integrity"   -> AddIntegrity(m, F(op, "data", <<>>), HmacSha1)
    [] op.op = "fingerprint" -> AddFingerprint(m, FpValue)
    [] op.op = "username"    -> Add(m, AttrUsername, F(op, "data", <<>>))
    [] op.op = "xoraddr"     -> Add(m, 32, EncXor(F(op, "data", <<>>), F(op, "port", 0), m.tid))
    [] op.op = "mapped"      -> Add(m, 1, EncMapped(F(op, "data", <<>>), F(op, "port", 0)))
    [] op.op = "errorcode"   -> Add(m, 9, EncErrorCode(F(op, "code", 0), F(op, "data", <<>>)))
    [] op.op = "unknown"     -> Add(m, 10, EncUnknown(F(op, "list", <<>>)))
    [] op.op = "writelength" -> WriteLength(m)
    [] op.op = "writetype"   -> WriteType(m)

SameVisible(a, b) ==
  /\ a.raw = b.raw /\ a.length = b.length /\ a.method = b.method /\ a.class = b.class /\ a.tid = b.tid
  /\ Len(a.attrs) = Len(b.attrs)
  /\ \A i \in 1..Len(a.attrs) : a.attrs[i].len = b.attrs[i].len /\ a.attrs[i].val = b.attrs[i].val
                                /\ CompatType(a.attrs[i].type) = CompatType(b.attrs[i].type)

LastPaddingZero(b, p) ==
  Len(p.attrs) = 0 \/
  LET a == p.attrs[Len(p.attrs)] IN \A k \in 1..PadLen(a.len) : b[a.off + a.len + k] = 0

Line(n, e) ==
  LET pre  == ToMsg(e.pre)
      post == ToMsg(e.post)
      op   == e.op
      inScope == post.length + 20 <= 65535 + 20 /\ Len(post.raw) <= 65555
      canonLineage == pre.raw = <<>> \/ op.op \in {"build", "encode"} \/ IsCanonical(pre.raw)
  IN
  /\ Require(e.perr = "", n, "panic", [op |-> op.op, perr |-> e.perr])
  /\ (e.perr = "" /\ ~e.refused /\ Building(op) /\ inScope) =>
        /\ Require(StructMatchesWireX(post, canonLineage), n, "struct-differs-from-wire",
                   [op |-> op.op, canonical_history |-> canonLineage, rawlen |-> Len(post.raw), length |-> post.length,
                    parse_ok |-> Parse(post.raw).ok])
        /\ (canonLineage /\ Parse(post.raw).ok) =>
              Require(PaddingZero(post.raw, Parse(post.raw)) /\ IsCanonical(post.raw), n, "not-canonical",
                      [op |-> op.op, why |-> "non-zero padding or non-canonical bytes after a building operation",
                       struct_holds_legacy_alias_0x8020 |-> \E i \in 1..Len(post.attrs) : post.attrs[i].type = 32800])
        /\ (AddLike(op) /\ Parse(post.raw).ok) =>
              Require(LastPaddingZero(post.raw, Parse(post.raw)), n, "padding-not-zero", [op |-> op.op])
        /\ Require(e.post.redec /\ e.post.equal /\ e.post.eqrev, n, "equal-disagrees",
                   [op |-> op.op, redecodes |-> e.post.redec, equal |-> e.post.equal, equal_reversed |-> e.post.eqrev,
                    attrs |-> Len(post.attrs),
                    struct_holds_legacy_alias_0x8020 |-> \E i \in 1..Len(post.attrs) : post.attrs[i].type = 32800])
        /\ (op.op = "encode" /\ StructMatchesWireX(pre, FALSE)) =>
              Require(post.raw = CanonOf(pre.raw), n, "decode-then-encode-not-canonical",
                      [struct_holds_legacy_alias_0x8020 |-> \E i \in 1..Len(post.attrs) : post.attrs[i].type = 32800])
  \* an operation that reported an error (a refused setter) must leave a coherent message behind as well
  /\ (e.refused /\ Building(op) /\ Len(pre.raw) >= 20) =>
        /\ Require(StructMatchesWireX(post, canonLineage), n, "struct-differs-from-wire-after-refused-operation",
                   [op |-> op.op, rawlen |-> Len(post.raw), length |-> post.length, header_length |-> Declared(post.raw)])
        /\ Expect(SameVisible(pre, post), n, "refused-operation-changed-message", [op |-> op.op])
  /\ (e.perr = "" /\ ~e.refused /\ ~Building(op)) =>
        \* encode-then-decode is the identity on content: the decoded struct is the parse of the data
        LET p == Parse(op.data) IN
        Require(p.ok /\ StructMatchesWireX(post, FALSE) /\ post.raw = op.data, n, "decode-differs-from-parse", <<>>)
  /\ (e.perr = "" /\ ~e.refused /\ e.pre.spare_ok /\ e.post.spare_ok) =>
        LET mo == ModelStep(pre, op) IN
        /\ Expect(SameVisible(mo, post), n, "model-step-visible", [op |-> op.op])
        /\ (e.pre.cap = e.post.cap) => Expect(mo.spare = post.spare, n, "model-step-retained-bytes", [op |-> op.op])

Init == RegInit /\ l = 1
Next == /\ l <= NLines
        /\ Line(l, Trace[l])
        /\ Consumed(l)
        /\ l' = l + 1
Spec == Init /\ [][Next]_l
=============================================================================
