----------------------------- MODULE TraceBase -----------------------------
(***************************************************************************)
(* Shared machinery of every trace specification.                          *)
(*                                                                         *)
(* The recorded trace is an NDJSON file (one JSON object per line) named   *)
(* by the environment variable VERIF_TRACE.  A trace spec consumes it line *)
(* by line through the variable l (index of the next line).  Requirement   *)
(* monitors are non-blocking: a line that violates a requirement is added  *)
(* to the reject register (TLC register 2) and the trace goes on, so one   *)
(* rejection never hides what follows.  Register 1 is the high-water mark  *)
(* of consumed lines.  The POSTCONDITION writes both to VERIF_OUT; the     *)
(* orchestrator decides from that file.  Runs use -workers 1.              *)
(***************************************************************************)
EXTENDS Integers, Sequences, TLC, Json, IOUtils

Trace == ndJsonDeserialize(IOEnv.VERIF_TRACE)
NLines == Len(Trace)

\* registers
RegInit == TLCSet(1, 0) /\ TLCSet(2, <<>>) /\ TLCSet(3, <<>>)

\* R-layer rejection (a requirement of the property is violated by line n)
Reject(n, why, detail) ==
  TLCSet(2, Append(TLCGet(2), [line |-> n, why |-> why, detail |-> detail]))

\* I-layer disagreement (the detailed model does not explain line n): drift
Drift(n, why, detail) ==
  TLCSet(3, Append(TLCGet(3), [line |-> n, why |-> why, detail |-> detail]))

\* Require(c, ...) is TRUE always; records a rejection when c is false
Require(c, n, why, detail) == IF c THEN TRUE ELSE Reject(n, why, detail)
Expect(c, n, why, detail)  == IF c THEN TRUE ELSE Drift(n, why, detail)

Consumed(n) == IF n > TLCGet(1) THEN TLCSet(1, n) ELSE TRUE

Has(r, f) == f \in DOMAIN r

\* POSTCONDITION: always TRUE, writes the verdict material
WriteOut ==
  JsonSerialize(IOEnv.VERIF_OUT,
      [lines |-> NLines, reached |-> TLCGet(1),
       rejects |-> TLCGet(2), drift |-> TLCGet(3)])

=============================================================================
