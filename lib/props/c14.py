"""C14 - Agent is linearizable, race-free and deadlock-free under concurrency."""
import json
import re
import vlib


def run(ctx):
    if ctx.replay_input() is not None:
        raise vlib.Inconclusive("C14 histories are schedules of real goroutines and cannot be re-driven deterministically; the replay file holds the recorded history for inspection and re-validation with spec/AgentLin.tla")
    # sequential specification: the exhaustive Agent graph (shared with C13)
    ctx.tlc_model("AgentMC", "AgentMC_quick.cfg", workers=1, heap_gb=3, name="sequential Agent specification, exhaustive (3 ids)",
                  extra=())
    quick = ctx.quick()
    env = {"VERIF_HISTORIES": 60 if quick else 1200, "VERIF_GOROUTINES": 8 if quick else 16,
           "VERIF_WIDTH": 4 if quick else 6, "VERIF_SEG_CALLS": 30, "VERIF_SEGMENTS": 4}
    h = ctx.harness("stun", race=True)
    trace = ctx.path("c14.ndjson")
    rc, out = ctx.drive(h, "TestVerifC14", env=dict(env, VERIF_TRACE_OUT=trace), timeout=1500, ok_rc=(0, 1, 2, 66))
    reported = []
    if "DATA RACE" in out:
        rep = re.findall(r"WARNING: DATA RACE[\s\S]{0,1800}", out)[0]
        reported.append({"k": "race", "hist": -1, "report": rep})
    elif rc != 0 and "stuck" not in out:
        raise vlib.Inconclusive("driver failed:\n" + out[-2500:])
    if reported:
        with open(trace, "a") as fh:
            fh.write(json.dumps({"k": "new", "n": 1, "h": 1, "hist": -1}) + "\n")
            for r in reported:
                fh.write(json.dumps(r) + "\n")
    files = ctx.shard(trace, vlib.NCPU * 4, group_key="hist")
    byhist = {}
    with open(trace) as fh:
        for ln in fh:
            e = json.loads(ln)
            byhist.setdefault(e["hist"], []).append(e)
    ctx.validate("AgentLin", files, cfg="AgentLin.cfg", deque=True, heap_gb=4, timeout=600, stuck_is_reject="not-linearizable")
    ctx.add_samples(trace, 4)
    ncalls = sum(1 for v in byhist.values() for e in v if e["k"] == "ret")

    def input_of(rj):
        tl = rj.get("trace_line") or {}
        return {"history": byhist.get(tl.get("hist"), [])[:400]}
    ctx.input_of = input_of
    ctx.extra.update({"histories": len(byhist), "calls": ncalls, "goroutines": env["VERIF_GOROUTINES"], "in_flight_width": env["VERIF_WIDTH"]})
    ctx.assumptions += ["data races are decided by the Go race detector on the executed schedules only",
                        "invocation/response order is the order of one global atomic counter incremented before the call and after its return",
                        "at most W calls are in flight at once (semaphore outside the recorded interval) so that TLC's search is bounded; all goroutines still contend for the agent"]
    return vlib.finish(ctx, traces_validated=len(byhist),
                       rule="recorded concurrent histories (8/16 goroutines, 3-4 shared ids, handlers calling back into the agent, one Close per history) each searched by TLC for a linearization against AgentCore; race detector on; watchdog for stuck goroutines")
