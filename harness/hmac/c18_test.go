//go:build verif

package hmac_test

import (
	"bufio"
	"encoding/json"
	"fmt"
	"hash"
	"math/rand"
	"os"
	"sync"
	"testing"
	"unsafe"

	"github.com/pion/stun/v3/internal/hmac"
)

type hmOp struct {
	Op string `json:"op"`
	O  int    `json:"o"`
	K  int    `json:"k,omitempty"`
	C  int    `json:"c,omitempty"`
}

type hmVector struct {
	Ops []hmOp `json:"ops"`
	// replay of a recorded trace: concrete keys/chunks
	Concrete []map[string]interface{} `json:"concrete,omitempty"`
}

var (
	objMu  sync.Mutex
	objIDs = map[uintptr]int{}
)

func objID(h hash.Hash) int {
	// identity of the pooled object behind the interface value (recorded, not interpreted)
	p := (*[2]uintptr)(unsafe.Pointer(&h))[1]
	objMu.Lock()
	defer objMu.Unlock()
	id, ok := objIDs[p]
	if !ok {
		id = len(objIDs) + 1
		objIDs[p] = id
	}
	return id
}

func rbytes(r *rand.Rand, n int) []byte {
	b := make([]byte, n)
	for i := range b {
		b[i] = byte(r.Intn(256))
	}
	return b
}

type hmRunner struct {
	tw  *traceWriter
	mu  *sync.Mutex
	tr  string
	hs  map[int]hash.Hash
	alg map[int]string
}

func (x *hmRunner) emit(m map[string]interface{}) {
	m["tr"] = x.tr
	x.mu.Lock()
	x.tw.emit(m)
	x.mu.Unlock()
}

func (x *hmRunner) acquire(h int, alg string, key []byte) {
	rec := ints(key)
	var hh hash.Hash
	if alg == "sha256" {
		hh = hmac.AcquireSHA256(key)
	} else {
		hh = hmac.AcquireSHA1(key)
	}
	x.hs[h] = hh
	x.alg[h] = alg
	x.emit(map[string]interface{}{"k": "acq", "h": h, "obj": objID(hh), "alg": alg, "key": rec})
}

func (x *hmRunner) write(h int, data []byte) {
	rec := ints(data)
	n, err := x.hs[h].Write(data)
	x.emit(map[string]interface{}{"k": "write", "h": h, "data": rec, "n": n, "err": err != nil})
}

func (x *hmRunner) sum(h int, prefix []byte) {
	out := x.hs[h].Sum(append([]byte(nil), prefix...))
	keep := len(out) >= len(prefix) && string(out[:len(prefix)]) == string(prefix)
	dg := out
	if keep {
		dg = out[len(prefix):]
	}
	x.emit(map[string]interface{}{"k": "sum", "h": h, "digest": ints(dg), "prefix_kept": keep,
		"size": x.hs[h].Size(), "block": x.hs[h].BlockSize()})
}

func (x *hmRunner) reset(h int) {
	x.hs[h].Reset()
	x.emit(map[string]interface{}{"k": "reset", "h": h})
}

func (x *hmRunner) put(h int) {
	if x.alg[h] == "sha256" {
		hmac.PutSHA256(x.hs[h])
	} else {
		hmac.PutSHA1(x.hs[h])
	}
	delete(x.hs, h)
	x.emit(map[string]interface{}{"k": "put", "h": h})
}

var keyClasses = []int{0, 1, 20, 63, 64, 65, 128, 300}

// runModelVector replays one TLC-generated history (abstract key ids / chunk ids are instantiated from the seed).
func runModelVector(x *hmRunner, r *rand.Rand, v hmVector, alg string) {
	x.emit(map[string]interface{}{"k": "new"})
	perm := r.Perm(len(keyClasses))
	keys := map[int][]byte{}
	for k := 1; k <= 3; k++ {
		keys[k] = rbytes(r, keyClasses[perm[k-1]])
	}
	for _, op := range v.Ops {
		switch op.Op {
		case "acquire":
			// the caller may reuse its key buffer: hand the library a private copy each time
			x.acquire(op.O, alg, append([]byte(nil), keys[op.K]...))
		case "write":
			n := r.Intn(70)
			if op.C == 2 {
				n = 50 + r.Intn(150)
			}
			x.write(op.O, rbytes(r, n))
		case "sum":
			var prefix []byte
			if r.Intn(3) == 0 {
				prefix = rbytes(r, r.Intn(9))
			}
			x.sum(op.O, prefix)
		case "reset":
			x.reset(op.O)
		case "put":
			x.put(op.O)
		}
	}
	for h := range x.hs {
		x.put(h)
	}
}

// runRandomHistory: long seeded history over several handles with sizes 0..4096 in random chunkings.
func runRandomHistory(x *hmRunner, r *rand.Rand, nops int) {
	x.emit(map[string]interface{}{"k": "new"})
	keys := [][]byte{}
	for i := 0; i < 4; i++ {
		keys = append(keys, rbytes(r, keyClasses[r.Intn(len(keyClasses))]))
	}
	for i := 0; i < nops; i++ {
		h := 1 + r.Intn(2)
		_, held := x.hs[h]
		if !held {
			alg := "sha1"
			if r.Intn(2) == 0 {
				alg = "sha256"
			}
			key := keys[r.Intn(len(keys))] // same key slice reused across acquisitions, as a caller would
			x.acquire(h, alg, key)
			continue
		}
		switch c := r.Intn(10); {
		case c < 4:
			n := r.Intn(100)
			if r.Intn(20) == 0 {
				n = r.Intn(4097)
			}
			x.write(h, rbytes(r, n))
		case c < 7:
			x.sum(h, nil)
		case c < 9:
			x.reset(h)
		default:
			x.put(h)
		}
	}
	for h := range x.hs {
		x.put(h)
	}
}

func TestVerifC18(t *testing.T) {
	tw := newTrace(t)
	defer tw.close()
	var mu sync.Mutex
	r := newRand(18)
	seq := 0
	if p := os.Getenv("VERIF_VECTORS"); p != "" {
		f, err := os.Open(p)
		if err != nil {
			t.Fatal(err)
		}
		sc := bufio.NewScanner(f)
		sc.Buffer(make([]byte, 1<<20), 1<<26)
		for sc.Scan() {
			var v hmVector
			if err := json.Unmarshal(sc.Bytes(), &v); err != nil {
				t.Fatal(err)
			}
			seq++
			x := &hmRunner{tw: tw, mu: &mu, tr: fmt.Sprintf("m%d", seq), hs: map[int]hash.Hash{}, alg: map[int]string{}}
			if len(v.Concrete) > 0 {
				replayConcrete(x, v.Concrete)
				continue
			}
			alg := "sha1"
			if seq%2 == 0 {
				alg = "sha256"
			}
			runModelVector(x, r, v, alg)
		}
		f.Close()
	}
	for i := 0; i < envInt("VERIF_RANDOM_SEQS", 0); i++ {
		seq++
		x := &hmRunner{tw: tw, mu: &mu, tr: fmt.Sprintf("r%d", seq), hs: map[int]hash.Hash{}, alg: map[int]string{}}
		runRandomHistory(x, r, envInt("VERIF_RANDOM_OPS", 60))
	}
	// concurrent use of the pool: every goroutine records its own histories
	ng := envInt("VERIF_GOROUTINES", 0)
	var wg sync.WaitGroup
	for g := 0; g < ng; g++ {
		wg.Add(1)
		go func(g int) {
			defer wg.Done()
			rr := rand.New(rand.NewSource(seed()*7919 + int64(g)))
			for i := 0; i < envInt("VERIF_CONC_SEQS", 10); i++ {
				x := &hmRunner{tw: tw, mu: &mu, tr: fmt.Sprintf("g%d_%d", g, i), hs: map[int]hash.Hash{}, alg: map[int]string{}}
				runRandomHistory(x, rr, 40)
			}
		}(g)
	}
	wg.Wait()
}

func replayConcrete(x *hmRunner, lines []map[string]interface{}) {
	x.emit(map[string]interface{}{"k": "new"})
	toBytes := func(v interface{}) []byte {
		a, _ := v.([]interface{})
		b := make([]byte, len(a))
		for i, e := range a {
			b[i] = byte(e.(float64))
		}
		return b
	}
	for _, e := range lines {
		h := 0
		if f, ok := e["h"].(float64); ok {
			h = int(f)
		}
		switch e["k"] {
		case "acq":
			x.acquire(h, e["alg"].(string), toBytes(e["key"]))
		case "write":
			x.write(h, toBytes(e["data"]))
		case "sum":
			x.sum(h, nil)
		case "reset":
			x.reset(h)
		case "put":
			x.put(h)
		}
	}
}
