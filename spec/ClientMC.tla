------------------------------ MODULE ClientMC ------------------------------
(* Exhaustive / simulation configurations of Client with labelled          *)
(* transition export for the gate-level replay of the real client.         *)
EXTENDS Client, Json
CONSTANTS s1, s2, o1, o2, w1, w2
IdOfDef == [s \in {s1, s2} |-> IF s = s1 THEN "id1" ELSE "id2"]
IdOfSame == [s \in {s1, s2} |-> "id1"]

PN(p) == CASE p = s1 -> "s1" [] p = s2 -> "s2" [] OTHER -> p
ON(o) == CASE o = o1 -> 1 [] o = o2 -> 2 [] OTHER -> 0
WN(x) == CASE x = w1 -> 1 [] x = w2 -> 2 [] OTHER -> 0

\* the process that moved in this step ("env" for Tick / Deliver); the closer wins when it stops the collector
MovedSet == { p \in Procs : pc[p] # pc'[p] \/ loc[p] # loc'[p] }
\* (a reader that consumes an undecodable datagram comes back to the same gate with the same locals)
Mover == IF X \in MovedSet THEN X
         ELSE IF MovedSet = {} THEN (IF inbox # None /\ inbox' = None THEN RD ELSE IF idleLeft' # idleLeft THEN CL ELSE "env")
         ELSE CHOOSE p \in MovedSet : TRUE

Label ==
  LET p == Mover IN
  [p |-> PN(p),
   from |-> IF p = "env" THEN "" ELSE pc[p],
   to |-> IF p = "env" THEN "" ELSE pc'[p],
   wok |-> fails' = fails,
   clock |-> clock',
   tick |-> clock' # clock,
   setrto |-> IF rto' # rto THEN rto' ELSE 0,
   dup |-> (DupMode /\ p = DupStart /\ pc[p] = "idle" /\ pc'[p] = "done" /\ ~closed),   \* refused duplicate Start/Do
   do |-> (p # "env" /\ loc'[p].w # None /\ pc[p] = "idle"),          \* this caller is Client.Do
   deliver |-> IF inbox = None /\ inbox' # None THEN [kind |-> inbox'.kind, id |-> inbox'.id] ELSE [kind |-> "", id |-> ""],
   ev |-> IF p # "env" /\ loc'[p].ev # None THEN [kind |-> loc'[p].ev.kind, id |-> loc'[p].ev.id] ELSE [kind |-> "", id |-> ""]]

\* compact state identity for path reconstruction
ObjJ(o) == [id |-> IF obj[o].id = None THEN "" ELSE obj[o].id, a |-> obj[o].attempt, c |-> obj[o].calls,
            w |-> IF obj[o].owner = None THEN "" ELSE PN(obj[o].owner), f |-> obj[o].free, r |-> obj[o].reg, q |-> obj[o].prev, x |-> obj[o].rto, h |-> WN(obj[o].w)]
LocJ(r) == [id |-> IF r.id = None THEN "" ELSE r.id, o |-> ON(r.o),
            ev |-> IF r.ev = None THEN "" ELSE r.ev.kind \o ":" \o r.ev.id,
            todo |-> r.todo, rpc |-> IF r.rpc = None THEN "" ELSE r.rpc, s |-> IF r.s = None THEN "" ELSE PN(r.s), now |-> r.now, w |-> WN(r.w)]
WJ(q) == << q.panic, [x \in DOMAIN q.w |-> << q.w[x].free, q.w[x].processed, IF q.w[x].cb = None THEN "" ELSE PN(q.w[x].cb) >>] >>
Key(cl, cc, co, t, a, ac, al, ob, ck, pcv, lc, ib, f, r, j, ws, hc, rt, fb, en, rr, rb) ==
  << rr, rb, cl, cc, co, [i \in DOMAIN t |-> ON(t[i])], [i \in DOMAIN a |-> IF a[i] = None THEN -1 ELSE a[i]], ac,
     IF al = None THEN "" ELSE al, ck, pcv, ib # None, IF ib = None THEN "" ELSE ib.kind \o ":" \o ib.id,
     f, r, j, ws, hc, rt, fb, en >>

PrintEdge ==
  PrintT("EDGE " \o ToJson(
    [f |-> << Key(closed, closeChan, connCloses, ct, at, aclosed, alock, obj, clock, pc, loc, inbox, fails, resps, junk, wsucc, hcalls, ret, fbcalls, ended, rto, rtoBudget + 10 * idleLeft),
              [o \in Objs |-> ObjJ(o)], [p \in Procs |-> LocJ(loc[p])], WJ(wp) >>,
     a |-> Label,
     t |-> << Key(closed', closeChan', connCloses', ct', at', aclosed', alock', obj', clock', pc', loc', inbox', fails', resps', junk', wsucc', hcalls', ret', fbcalls', ended', rto', rtoBudget' + 10 * idleLeft'),
              [o \in Objs |-> [id |-> IF obj'[o].id = None THEN "" ELSE obj'[o].id, a |-> obj'[o].attempt, c |-> obj'[o].calls,
                               w |-> IF obj'[o].owner = None THEN "" ELSE PN(obj'[o].owner), f |-> obj'[o].free, r |-> obj'[o].reg, q |-> obj'[o].prev, x |-> obj'[o].rto, h |-> WN(obj'[o].w)]],
              [p \in Procs |-> LocJ(loc'[p])], WJ(wp') >>]))
=============================================================================
