------------------------------ MODULE AgentInd ------------------------------
(***************************************************************************)
(* Unbounded lift of the Agent design for Apalache: the exactly-one-       *)
(* terminal-event accounting as an inductive invariant over histories of   *)
(* any length.  started[i] counts successful registrations of id i,        *)
(* terminated[i] the terminal events emitted for it (stopped / timeout /   *)
(* closed / the message that ended it).                                    *)
(*   IndInit => IndInv            (length 0)                               *)
(*   IndInv /\ Next => IndInv'    (length 1)                               *)
(***************************************************************************)
EXTENDS Integers

CONSTANTS
  \* @type: Set(Int);
  Ids,
  \* @type: Int;
  NoneV

VARIABLES
  \* @type: Int -> Int;
  tab,
  \* @type: Bool;
  closed,
  \* @type: Int -> Int;
  started,
  \* @type: Int -> Int;
  terminated

CInit == Ids = {1, 2, 3} /\ NoneV = -1

Reg(i) == tab[i] # NoneV
B2I(b) == IF b THEN 1 ELSE 0

TypeOK == /\ tab \in [Ids -> Int]
          /\ \A i \in Ids : tab[i] >= NoneV
          /\ closed \in BOOLEAN
          /\ started \in [Ids -> Nat] /\ terminated \in [Ids -> Nat]

IndInv ==
  /\ TypeOK
  /\ \A i \in Ids : started[i] = terminated[i] + B2I(Reg(i))
  /\ closed => \A i \in Ids : ~Reg(i)

Init == /\ tab = [i \in Ids |-> NoneV] /\ closed = FALSE
        /\ started = [i \in Ids |-> 0] /\ terminated = [i \in Ids |-> 0]

IndInit == IndInv

Start(i, d) ==
  /\ d >= 0
  /\ IF closed \/ Reg(i) THEN UNCHANGED << tab, started >>
     ELSE tab' = [tab EXCEPT ![i] = d] /\ started' = [started EXCEPT ![i] = @ + 1]
  /\ UNCHANGED << closed, terminated >>

Stop(i) ==
  /\ IF closed \/ ~Reg(i) THEN UNCHANGED << tab, terminated >>
     ELSE tab' = [tab EXCEPT ![i] = NoneV] /\ terminated' = [terminated EXCEPT ![i] = @ + 1]
  /\ UNCHANGED << closed, started >>

\* Process: emits the message always; it is the terminal event of a registered id
Process(i) ==
  /\ IF closed \/ ~Reg(i) THEN UNCHANGED << tab, terminated >>
     ELSE tab' = [tab EXCEPT ![i] = NoneV] /\ terminated' = [terminated EXCEPT ![i] = @ + 1]
  /\ UNCHANGED << closed, started >>

Collect(t) ==
  /\ IF closed THEN UNCHANGED << tab, terminated >>
     ELSE /\ tab' = [i \in Ids |-> IF Reg(i) /\ tab[i] < t THEN NoneV ELSE tab[i]]
          /\ terminated' = [i \in Ids |-> IF Reg(i) /\ tab[i] < t THEN terminated[i] + 1 ELSE terminated[i]]
  /\ UNCHANGED << closed, started >>

Close ==
  /\ IF closed THEN UNCHANGED << tab, terminated, closed >>
     ELSE /\ tab' = [i \in Ids |-> NoneV]
          /\ terminated' = [i \in Ids |-> terminated[i] + B2I(Reg(i))]
          /\ closed' = TRUE
  /\ UNCHANGED started

Next == \/ \E i \in Ids, d \in 0..1000000 : Start(i, d)
        \/ \E i \in Ids : Stop(i) \/ Process(i)
        \/ \E t \in 0..1000000 : Collect(t)
        \/ Close
=============================================================================
