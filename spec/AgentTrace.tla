----------------------------- MODULE AgentTrace -----------------------------
(***************************************************************************)
(* Trace validation for C13 (R = I): a recorded sequence of calls on a     *)
(* real Agent, with the result and the handler events of every call, must  *)
(* be a behaviour of the abstract transaction table (AgentCore).           *)
(*   {"k":"new","tr":n,"h":1,"n":<number of ids>}                          *)
(*   {"k":"call","tr":n,"op":..,"id":..,"d":..,"t":..,"h":..,              *)
(*    "res":"ok|closed|exists|notexists|other","evs":[{"h","id","kind"}]}  *)
(* A mismatch is recorded and the rest of that trace is skipped (the model *)
(* state is no longer known); the next "new" line resynchronises.          *)
(***************************************************************************)
EXTENDS TraceBase, AgentCore, FiniteSetsExt, SequencesExt

VARIABLES l, ag, skip

Init == RegInit /\ l = 1 /\ ag = InitAgOver({}, None) /\ skip = TRUE

\* C13 judges the Agent on its own (requirement); inside a client run the same comparison is an expectation about
\* the Agent part of the client model (VERIF_AGENT_LAYER = "I": a mismatch is model drift, not a violation of the
\* client property being checked)
AsExpectation == "VERIF_AGENT_LAYER" \in DOMAIN IOEnv /\ IOEnv.VERIF_AGENT_LAYER = "I"
Judge(c, n, why, detail) == IF AsExpectation THEN Expect(c, n, why, detail) ELSE Require(c, n, why, detail)

Outcome(e) ==
  CASE e.op = "start"      -> StartF(ag, e.id, e.d)
    [] e.op = "stop"       -> StopF(ag, e.id, "stopped")
    [] e.op = "stoperr"    -> StopF(ag, e.id, "custom")
    [] e.op = "process"    -> ProcessF(ag, e.id)
    [] e.op = "collect"    -> CollectF(ag, e.t)
    [] e.op = "sethandler" -> SetHandlerF(ag, e.h)
    [] e.op = "close"      -> CloseF(ag)

Obs(e) == { Ev(e.evs[i].h, e.evs[i].id, e.evs[i].kind) : i \in 1..Len(e.evs) }

Call(e) ==
  LET o   == Outcome(e)
      obs == Obs(e)
      ok  == /\ o.res = e.res
             /\ o.evs = obs
             /\ Cardinality(obs) = Len(e.evs)
  IN /\ Judge(ok, l, "agent-step",
                [op |-> e.op, want_res |-> o.res, got_res |-> e.res,
                 want_events |-> Cardinality(o.evs), got_events |-> Len(e.evs),
                 want_evs |-> SetToSeq(o.evs)])
     /\ ag' = IF ok THEN [tab |-> o.tab, closed |-> o.closed, handler |-> o.handler] ELSE ag
     /\ skip' = ~ok

Next ==
  /\ l <= NLines
  /\ LET e == Trace[l] IN
       IF e.k = "new"
       THEN ag' = InitAgOver(1..e.n, e.h) /\ skip' = FALSE
       ELSE IF skip THEN UNCHANGED << ag, skip >>
       ELSE Call(e)
  /\ Consumed(l)
  /\ l' = l + 1

Spec == Init /\ [][Next]_<< l, ag, skip >>

\* the invariants of the design also hold on every state reached by the real code
ClosedIsEmpty == ag.closed => (Registered(ag) = {} /\ ag.handler = None)
=============================================================================
