------------------------------- MODULE CRC32 -------------------------------
(***************************************************************************)
(* CRC-32 (IEEE 802.3 / ITU-T V.42, as referenced by RFC 5389 s15.5):      *)
(* reflected polynomial 0xEDB88320, initial value and final XOR 0xFFFFFFFF.*)
(* CrcBitSerial is the definition; Crc32 is the usual byte-table form of   *)
(* the same recurrence (table derived from the bit-serial step).  TLC      *)
(* checks that both agree in CRC32Check.cfg.                               *)
(***************************************************************************)
EXTENDS Bytes

Poly == << 60856, 33568 >>          \* 0xEDB8 8320
Ones == << 65535, 65535 >>

BitStep(c) == IF c[2] % 2 = 1 THEN Xor32(Shr32(c, 1), Poly) ELSE Shr32(c, 1)

Step8(c) == BitStep(BitStep(BitStep(BitStep(BitStep(BitStep(BitStep(BitStep(c))))))))

\* one input byte, bit-serial
ByteStepSerial(c, byte) == Step8(<< c[1], c[2] ^^ byte >>)

CrcBitSerial(b) == Xor32(FoldLeft(ByteStepSerial, Ones, b), Ones)

Table == [i \in 0..255 |-> Step8(<< 0, i >>)]

ByteStep(c, byte) == Xor32(Table[(c[2] ^^ byte) % 256], Shr32(c, 8))

Crc32(b) == Xor32(FoldLeft(ByteStep, Ones, b), Ones)

\* continuation form: Crc32Update(Crc32State0, b) then finish
CrcState0 == Ones
CrcUpdate(c, b) == FoldLeft(ByteStep, c, b)
CrcFinish(c) == Xor32(c, Ones)

=============================================================================
