------------------------------ MODULE StunAuth ------------------------------
(***************************************************************************)
(* RFC 5389 s15.4 MESSAGE-INTEGRITY and s15.5 FINGERPRINT, over the        *)
(* reference framing (StunWire) and the transcribed primitives (HMAC,      *)
(* SHA1, MD5, CRC32).  Nothing here is taken from integrity.go or          *)
(* fingerprint.go.                                                         *)
(***************************************************************************)
EXTENDS StunWire, CRC32, HMAC, MD5

AttrMessageIntegrity == 8          \* 0x0008
AttrFingerprint      == 32808      \* 0x8028

\* replace the header length field (bytes 2..3) of b by n
WithLength(b, n) == << b[1], b[2] >> \o U16Bytes(n) \o SubSeq(b, 5, Len(b))

---------------------------------------------------------------------------
(* s15.5  FINGERPRINT: CRC-32 of the message up to (but excluding) the      *)
(* FINGERPRINT attribute itself, XOR 0x5354554e; the header length already  *)
(* covers the FINGERPRINT attribute when the CRC is computed.               *)

FpXor == << 21332, 21838 >>        \* 0x5354 554e
FpValue(bytes) == U32Bytes(Xor32(Crc32(bytes), FpXor))

\* what the fingerprint setter must leave behind, given the bytes before the call
FpAdd(pre) ==
  LET withLen == WithLength(pre, Len(pre) - HeaderSize + 8)
  IN withLen \o << 128, 40, 0, 4 >> \o FpValue(withLen)

\* the check of the property: first FINGERPRINT attribute has a 4-byte value equal to the CRC over
\* everything before the last 8 bytes of the raw message (p = Parse(b), p.ok)
FpCheckOK(b, p) ==
  LET k == FirstOfType(p.attrs, AttrFingerprint) IN
  /\ k # 0
  /\ p.attrs[k].len = 4
  /\ Len(b) >= 8
  /\ ValueOf(b, p.attrs[k]) = FpValue(SubSeq(b, 1, Len(b) - 8))

NumFingerprints(p) == Len(IndicesOfType(p.attrs, AttrFingerprint))

---------------------------------------------------------------------------
(* s15.4  MESSAGE-INTEGRITY: HMAC-SHA1 over the message up to and including *)
(* the attribute preceding MESSAGE-INTEGRITY, with the header length set to *)
(* point to the end of the MESSAGE-INTEGRITY attribute.                     *)

\* a = the MESSAGE-INTEGRITY attribute (value at 0-based offset a.off): covered text
MiText(b, a) == WithLength(SubSeq(b, 1, a.off - 4), a.off - 4 + 24 - HeaderSize)

MiCheckOK(b, p, key) ==
  LET k == FirstOfType(p.attrs, AttrMessageIntegrity) IN
  /\ k # 0
  /\ p.attrs[k].len = 20
  /\ ValueOf(b, p.attrs[k]) = HmacSha1(key, MiText(b, p.attrs[k]))

\* what the integrity setter must leave behind (signing is refused once FINGERPRINT is present)
MiRefused(p) == HasType(p.attrs, AttrFingerprint)
MiAdd(pre, key) ==
  LET withLen == WithLength(pre, Len(pre) - HeaderSize + 24)
  IN withLen \o << 0, 8, 0, 20 >> \o HmacSha1(key, withLen)

\* long-term credential key: MD5(username ":" realm ":" password)
LongTermKey(user, realm, pass) == Md5(user \o << 58 >> \o realm \o << 58 >> \o pass)

=============================================================================
