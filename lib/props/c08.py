"""C08 - reusing a Message never leaks or corrupts data across uses."""
import json
import vlib
from props import c03


def run(ctx):
    rin = ctx.replay_input()
    vec = ctx.path("c08_vectors.ndjson")
    nscen = 0
    env = {}
    if rin is not None:
        with open(vec, "w") as fh:
            fh.write(json.dumps(rin) + "\n")
        env = {"VERIF_REPS": 50, "VERIF_CLONES": 0}
    else:
        # design level: the Message model's NoLeak / NoLeakAttrs invariants over all building/decoding histories
        ctx.tlc_model("MessageMC", "MessageMC_d4.cfg" if ctx.quick() else "MessageMC_d5.cfg", workers=vlib.NCPU, heap_gb=10,
                      timeout=2400, name="Message model: NoLeak over all histories (poison-filled storage)")
        r = ctx.tlc_model("ScenGen", "ScenGen_C08.cfg", workers=2, heap_gb=3, name="(previous use, next use) pairs")
        scens = [json.loads(json.loads(ln)[4:]) for ln in r["out"].splitlines() if ln.startswith('"VEC ')]
        if not scens:
            raise vlib.Inconclusive("no scenarios exported")
        with open(vec, "w") as fh:
            for s in scens:
                fh.write(json.dumps(s) + "\n")
        nscen = len(scens)
        env = {"VERIF_REPS": 1 if ctx.quick() else 4, "VERIF_TRIPLES": 3000 if ctx.quick() else 60000,
               "VERIF_CLONES": 200 if ctx.quick() else 3000}
    h = ctx.harness("stun")
    trace = ctx.path("c08.ndjson")
    ctx.drive(h, "TestVerifC08", env=dict(env, VERIF_TRACE_OUT=trace, VERIF_VECTORS=vec), timeout=900)
    files = ctx.shard(trace, vlib.NCPU * 2)
    ctx.validate("ReuseTrace", files, heap_gb=3, timeout=1800)
    ctx.add_samples(trace, 3, maxlen=700)
    total = sum(1 for _ in open(trace))
    ctx.input_of = lambda rj: rj["trace_line"].get("scen", {"prev": {"kind": "build", "n": 1, "vlen": 1}, "next": {"kind": "build", "n": 1, "vlen": 1}})
    ctx.extra.update({"pairs": nscen, "uses_recorded": total})
    ctx.assumptions += ["poison-filled Raw storage and stale attribute records make leaked bytes recognisable",
                        "the fresh twin is a zero Message with the same Type and TransactionID fields, as the property defines it"]
    return vlib.finish(ctx, traces_validated=total,
                       rule="all (previous use, next use) pairs over 108 uses (6 kinds x attribute count x value-length class) = 11664 pairs, plus sampled triples; CloneTo/MarshalBinary/GobEncode with the source changed afterwards")
