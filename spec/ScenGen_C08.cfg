SPECIFICATION Spec
CONSTANTS
  Which = "C08"
  Lens = {0}
INVARIANT Export
CHECK_DEADLOCK FALSE
