SPECIFICATION Spec
CONSTANTS
  Which = "C07"
  Lens = {0, 1, 2, 3, 4, 5, 6, 7, 8, 9, 11, 12, 16, 19, 20, 21, 24, 36, 40}
INVARIANT Export
CHECK_DEADLOCK FALSE
