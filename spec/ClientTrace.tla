----------------------------- MODULE ClientTrace -----------------------------
(***************************************************************************)
(* Requirement monitors for the Client properties over the event log of a  *)
(* real stun.Client (gated replay of Client.tla behaviours, or free        *)
(* running goroutines).  Mode (VERIF_MODE) selects the family:             *)
(*   C10 exactly-once completion   C11 retransmission bytes/bound/schedule *)
(*   C12 routing by transaction id C15 Close                               *)
(* Events (one JSON line each, "tr" = trace id, in causal order):          *)
(*   cfg, start_call, start_ret, do_waiting, handler_done, now, cb, cbexit, *)
(*   write, handler, fallback,                                             *)
(*   deliver, tick, close_call, close_ret, conn_close, exit, drift, end    *)
(* The monitors are non-blocking: a violated requirement is recorded and   *)
(* the trace goes on.  Details carry what a known-finding signature needs  *)
(* (e.g. whether a retransmission window was open).                        *)
(***************************************************************************)
EXTENDS TraceBase, FiniteSets, StunWire

VARIABLES l, cfg, st, ws, ended, cbs, win, closeRet, closeOK, connCloses, lastDel, exited, lastNow, pendGarbage, cbSeen, k4, k2, pend, closing, texit

vars == << l, cfg, st, ws, ended, cbs, win, closeRet, closeOK, connCloses, lastDel, exited, lastNow, pendGarbage, cbSeen, k4, k2, pend, closing, texit >>

vars_noL == << cfg, st, ws, ended, cbs, win, closeRet, closeOK, connCloses, lastDel, exited, lastNow, pendGarbage, cbSeen, k4, k2, pend, closing, texit >>

Mode == IOEnv.VERIF_MODE
On(m) == Mode = m
\* pendGarbage is the "after drift" flag (name kept from an earlier draft)
InOrder == ~pendGarbage
OnO(m) == Mode = m /\ InOrder

Fresh ==
  /\ st' = << >>            \* s -> [id, raw, ret, calls, afterClose, t0]
  /\ ws' = << >>            \* id -> sequence of [reg, ok, t]
  /\ ended' = {}            \* ids whose handler ran (or Close returned)
  /\ cbs' = << >>           \* p -> stack of [kind, id]
  /\ win' = << >>           \* p -> [id, reg, endedBefore]  open retransmission window of goroutine p
  /\ closeRet' = FALSE /\ closeOK' = 0 /\ connCloses' = 0
  /\ lastDel' = << >>       \* id -> raw bytes of the last delivered datagram
  /\ exited' = {}
  /\ lastNow' = << >>
  /\ pendGarbage' = FALSE
  /\ cbSeen' = {}          \* ids for which an agent callback has begun
  /\ k4' = {}              \* ids whose first transmission failed after a callback for them had begun (K4 window)
  /\ k2' = {}              \* ids retransmitted after their end from a window opened before it (K2)
  /\ pend' = << >>         \* the decodable datagram the reader is processing: [id, raw, expect]
  /\ closing' = FALSE      \* Close has been called
  /\ texit' = << >>        \* id -> line of the last exit of a timeout callback for that id

Init == RegInit /\ l = 1 /\ cfg = [maxattempts |-> 7, rto |-> 1, closeconn |-> TRUE, fallback |-> TRUE, free |-> FALSE]
        /\ st = << >> /\ ws = << >> /\ ended = {} /\ cbs = << >> /\ win = << >> /\ closeRet = FALSE /\ closeOK = 0
        /\ connCloses = 0 /\ lastDel = << >> /\ exited = {} /\ lastNow = << >> /\ pendGarbage = FALSE
        /\ cbSeen = {} /\ k4 = {} /\ k2 = {} /\ pend = << >> /\ closing = FALSE /\ texit = << >>

Get(f, k, d) == IF k \in DOMAIN f THEN f[k] ELSE d
Set(f, k, v) == [x \in DOMAIN f \cup {k} |-> IF x = k THEN v ELSE f[x]]
Del(f, k) == [x \in DOMAIN f \ {k} |-> f[x]]

StartOfId(i) == IF i \in DOMAIN st /\ st[i].id = i THEN i      \* the drivers number start instances by their id
                ELSE IF \E s \in DOMAIN st : st[s].id = i THEN CHOOSE s \in DOMAIN st : st[s].id = i ELSE 0
InCb(p) == Len(Get(cbs, p, <<>>)) > 0
\* (in flight: from its first transmission on - a datagram with the id that arrives earlier answers something else,
\*  e.g. an indication that carried the same id)
InFlight(i) == StartOfId(i) # 0 /\ i \notin ended /\ st[StartOfId(i)].ret \in {"none", "nil", "wait"} /\ ~st[StartOfId(i)].ind
               /\ i \in DOMAIN ws /\ Len(ws[i]) > 0
WindowOpenFor(i) == \E p \in DOMAIN win : win[p].id = i
\* a timeout callback for i is in progress in some goroutine (between the client-table delete and the write)
InTimeoutCallback(i) == \E p \in DOMAIN cbs : Len(cbs[p]) > 0 /\ cbs[p][Len(cbs[p])].id = i /\ cbs[p][Len(cbs[p])].kind = "timeout"
\* ... or such a callback ended after the current callback of goroutine p began: the two overlapped in time even if
\* the log shows the fallback call only after the other callback's exit (free-running goroutines)
OverlappedTimeoutCallback(i, p) ==
  InTimeoutCallback(i) \/ (InCb(p) /\ i \in DOMAIN texit /\ texit[i] > cbs[p][Len(cbs[p])].line)
\* K3's window proper: the timeout callback has taken the transaction out of the client table and has not yet put it
\* back. The re-registration precedes the callback's agent.Start call (logged as "agstart"); in the gated replay the
\* log order is the execution order, so a response that goes astray after that call is outside the window.
\* Free-running (or drifted) goroutines log concurrently: there the whole overlapping callback counts.
BeforeReRegistration(i) == \E p \in DOMAIN cbs : Len(cbs[p]) > 0 /\ cbs[p][Len(cbs[p])].id = i
                                                  /\ cbs[p][Len(cbs[p])].kind = "timeout" /\ ~cbs[p][Len(cbs[p])].rereg
InK3Window(i, p) == IF cfg.free \/ ~InOrder THEN OverlappedTimeoutCallback(i, p) ELSE BeforeReRegistration(i)
Via(p) == IF InCb(p) THEN cbs[p][Len(cbs[p])].kind ELSE "start"

N == cfg.maxattempts
\* the goroutine that runs start instance s in the gated replay ("s1", "s2"); free-running callers have other names
CallerOf(s) == IF s = 1 THEN "s1" ELSE IF s = 2 THEN "s2" ELSE "?"
RtoOf(s) == IF s \in DOMAIN st THEN st[s].rto ELSE cfg.rto

\* the start instance of the indication that goroutine p is writing (0 = none); an indication is no transaction, even
\* when it carries the id of one
DupIndWriter(p) ==
  LET S == { s \in DOMAIN st : CallerOf(s) = p /\ st[s].ind /\ ~InCb(p) }
  IN IF S = {} THEN 0 ELSE CHOOSE s \in S : TRUE

WriteId(e) ==
  IF InCb(e.p) THEN cbs[e.p][Len(cbs[e.p])].id
  ELSE LET S == { s \in DOMAIN st : CallerOf(s) = e.p /\ st[s].ret = "none" } IN
       IF S # {} THEN st[CHOOSE s \in S : TRUE].id ELSE e.id

OkWrites(i) == SelectSeq(Get(ws, i, <<>>), LAMBDA w : w.ok)

Step(n, e) ==
  CASE e.k = "cfg" ->
         /\ cfg' = [maxattempts |-> e.maxattempts, rto |-> e.rto, closeconn |-> e.closeconn, fallback |-> e.fallback,
                    free |-> (Has(e, "free") /\ e.free)]
         /\ Fresh
    [] e.k = "start_call" ->
         /\ st' = Set(st, e.s, [id |-> e.id, line |-> n, ret |-> "none", do |-> (Has(e, "do") /\ e.do), ind |-> (Has(e, "ind") /\ e.ind), fin |-> 0, calls |-> 0, afterClose |-> closeRet, t0 |-> e.t, rto |-> cfg.rto])
         /\ UNCHANGED << cfg, ws, ended, cbs, win, closeRet, closeOK, connCloses, lastDel, exited, lastNow, pendGarbage, cbSeen, k4, k2, pend, closing, texit >>
    [] e.k = "start_ret" ->
         LET s == st[e.s] IN
         /\ OnO("C10") => Require(~(e.err # "nil" /\ s.calls > 0), n, "handler-after-start-error",
                                 [s |-> e.s, err |-> e.err, order |-> "handler-before-return", k4 |-> st[e.s].id \in k4,
                                  no_transmission_yet |-> ~(st[e.s].id \in DOMAIN ws /\ Len(ws[st[e.s].id]) > 0)])
         /\ On("C15") => Require(s.afterClose => e.err = "closed", n, "start-after-close-not-refused", [s |-> e.s, err |-> e.err])
         \* Do returns once the invocation of its handler has finished (handler_done is logged when the handler returns)
         /\ On("C10") => Require((s.do /\ e.err = "nil") => s.fin >= 1, n, "do-returned-before-its-handler-finished",
                                 [s |-> e.s, calls |-> s.calls, finished |-> s.fin])
         /\ st' = Set(st, e.s, [s EXCEPT !.ret = e.err])
         /\ UNCHANGED << cfg, ws, ended, cbs, win, closeRet, closeOK, connCloses, lastDel, exited, lastNow, pendGarbage, cbSeen, k4, k2, pend, closing, texit >>
    [] e.k = "do_waiting" ->
         \* replay only: the Do caller was seen blocked in callbackWaitHandler.wait, i.e. its Start returned nil
         /\ st' = Set(st, e.s, [st[e.s] EXCEPT !.ret = "wait"])
         /\ UNCHANGED << cfg, ws, ended, cbs, win, closeRet, closeOK, connCloses, lastDel, exited, lastNow, pendGarbage, cbSeen, k4, k2, pend, closing, texit >>
    [] e.k = "handler_done" ->
         /\ st' = Set(st, e.s, [st[e.s] EXCEPT !.fin = @ + 1])
         /\ UNCHANGED << cfg, ws, ended, cbs, win, closeRet, closeOK, connCloses, lastDel, exited, lastNow, pendGarbage, cbSeen, k4, k2, pend, closing, texit >>
    [] e.k = "setrto" ->
         \* Client.SetRTO: later Starts snapshot the new value (the snapshot is taken right after the clock reading)
         /\ cfg' = [cfg EXCEPT !.rto = e.v]
         /\ UNCHANGED << st, ws, ended, cbs, win, closeRet, closeOK, connCloses, lastDel, exited, lastNow, pendGarbage, cbSeen, k4, k2, pend, closing, texit >>
    [] e.k = "now" ->
         /\ lastNow' = Set(lastNow, e.p, e.t)
         /\ st' = LET cands == { s \in DOMAIN st : ~InCb(e.p) /\ st[s].ret = "none" /\ CallerOf(s) = e.p } IN
                  [s \in DOMAIN st |-> IF s \in cands THEN [st[s] EXCEPT !.rto = cfg.rto, !.t0 = e.t] ELSE st[s]]
         /\ win' = IF InCb(e.p)
                   THEN LET top == cbs[e.p][Len(cbs[e.p])] IN
                        Set(win, e.p, [id |-> top.id, reg |-> e.t, endedBefore |-> top.id \in ended])
                   ELSE win
         /\ UNCHANGED << cfg, ws, ended, cbs, closeRet, closeOK, connCloses, lastDel, exited, pendGarbage, cbSeen, k4, k2, pend, closing, texit >>
    [] e.k = "cb" ->
         \* the agent reports a timeout: the clock must have passed the deadline of the last transmission
         \* (k+1)*rto after the clock reading taken for transmission k
         /\ (OnO("C11") /\ e.kind = "timeout" /\ StartOfId(e.id) # 0 /\ e.id \notin k4) =>
               LET s == st[StartOfId(e.id)]
                   rs == SelectSeq(Get(ws, e.id, <<>>), LAMBDA w : w.retx)
                   k == Len(rs)
                   lastreg == IF k = 0 THEN s.t0 ELSE rs[k].reg
               IN Require(e.t > lastreg + (k + 1) * s.rto, n, "timeout-event-before-deadline",
                          [id |-> e.id, at |-> e.t, transmission |-> k, registered_at |-> lastreg, rto |-> s.rto])
         /\ cbs' = Set(cbs, e.p, Append(Get(cbs, e.p, <<>>), [kind |-> e.kind, id |-> e.id, line |-> n, rereg |-> FALSE]))
         /\ cbSeen' = cbSeen \cup {e.id}
         /\ UNCHANGED << cfg, st, ws, ended, win, closeRet, closeOK, connCloses, lastDel, exited, lastNow, pendGarbage, k4, k2, pend, closing, texit >>
    [] e.k = "agstart" ->
         \* agent.Start called from inside a callback: the retransmission path has re-registered the transaction
         /\ cbs' = IF InCb(e.p) THEN Set(cbs, e.p, [cbs[e.p] EXCEPT ![Len(cbs[e.p])] = [@ EXCEPT !.rereg = TRUE]]) ELSE cbs
         /\ UNCHANGED << cfg, st, ws, ended, win, closeRet, closeOK, connCloses, lastDel, exited, lastNow, pendGarbage, cbSeen, k4, k2, pend, closing, texit >>
    [] e.k = "cbexit" ->
         /\ cbs' = IF InCb(e.p) THEN Set(cbs, e.p, SubSeq(cbs[e.p], 1, Len(cbs[e.p]) - 1)) ELSE cbs
         /\ win' = IF Len(Get(cbs, e.p, <<>>)) <= 1 THEN Del(win, e.p) ELSE win
         /\ texit' = IF e.kind = "timeout" THEN Set(texit, e.id, n) ELSE texit
         /\ UNCHANGED << cfg, st, ws, ended, closeRet, closeOK, connCloses, lastDel, exited, lastNow, pendGarbage, cbSeen, k4, k2, pend, closing >>
    [] e.k = "write" /\ DupIndWriter(e.p) # 0 ->
         \* an indication (it may carry the transaction id of another caller's transaction): its one write is not a
         \* transmission of any transaction (bytes as given, nothing else to say)
         /\ On("C11") => Require(e.raw = Trace[st[DupIndWriter(e.p)].line].raw, n, "transmission-differs-from-message-at-start",
                                 [id |-> e.id, transmission |-> 0, got_len |-> Len(e.raw), want_len |-> Len(Trace[st[DupIndWriter(e.p)].line].raw)])
         /\ UNCHANGED vars_noL
    [] e.k = "write" ->
         \* whose transmission this is: decided by who writes (the retransmission path of a callback writes for the
         \* callback's transaction, a caller inside Start for its own), not by what the bytes claim - an empty or
         \* foreign buffer on the wire is a transmission of that transaction all the same
         LET i == WriteId(e)
             s == StartOfId(i)
             retx == InCb(e.p)                          \* written from the retransmission path
             prior == Get(ws, i, <<>>)
             \* transmission index: the write made by Start itself is transmission 0 whenever it happens
             k == IF retx THEN Len(SelectSeq(prior, LAMBDA w : w.retx)) + 1 ELSE 0
             reg == IF retx /\ e.p \in DOMAIN win THEN win[e.p].reg ELSE Get(lastNow, e.p, e.t)
             prevreg == IF k = 0 \/ s = 0 THEN reg
                        ELSE IF k = 1 THEN st[s].t0
                        ELSE LET rs == SelectSeq(prior, LAMBDA w : w.retx) IN rs[Len(rs)].reg
         IN
         /\ (On("C11") /\ s # 0) =>
              /\ Require(e.raw = Trace[st[s].line].raw, n, "transmission-differs-from-message-at-start",
                         [id |-> i, transmission |-> k, got_len |-> Len(e.raw), want_len |-> Len(Trace[st[s].line].raw)])
              /\ Require(Len(prior) + 1 <= N + 1, n, "too-many-transmissions", [id |-> i, count |-> Len(prior) + 1, limit |-> N + 1])
              /\ Require(~InOrder \/ k = 0 \/ reg > prevreg + k * RtoOf(s), n, "retransmitted-before-deadline",
                         [id |-> i, transmission |-> k, at |-> reg, previous |-> prevreg, rto |-> RtoOf(s), via |-> Via(e.p), k4 |-> i \in k4])
              /\ Require(~InOrder \/ ~(i \in ended /\ k >= 1), n, "write-after-end",
                         [id |-> i, transmission |-> k, via |-> Via(e.p), k4 |-> i \in k4,
                          window_opened_before_end |-> (e.p \in DOMAIN win /\ ~win[e.p].endedBefore)])
         /\ (On("C15") /\ s # 0) => Require(~st[s].afterClose, n, "write-by-start-after-close", [id |-> i])
         /\ ws' = Set(ws, i, Append(prior, [reg |-> reg, ok |-> e.ok, t |-> e.t, retx |-> retx]))
         /\ win' = IF retx THEN Del(win, e.p) ELSE win
         /\ k4' = IF ~retx /\ ~e.ok /\ i \in cbSeen THEN k4 \cup {i} ELSE k4
         /\ k2' = IF i \in ended /\ k >= 1 /\ e.p \in DOMAIN win /\ ~win[e.p].endedBefore THEN k2 \cup {i} ELSE k2
         \* a retransmission that fails takes the transaction out of the client table again (c.delete) before its
         \* handler gets the error: K3's window is open once more until the callback ends
         /\ cbs' = IF retx /\ ~e.ok THEN Set(cbs, e.p, [cbs[e.p] EXCEPT ![Len(cbs[e.p])] = [@ EXCEPT !.rereg = FALSE]]) ELSE cbs
         /\ UNCHANGED << cfg, st, ended, closeRet, closeOK, connCloses, lastDel, exited, lastNow, pendGarbage, cbSeen, pend, closing, texit >>
    [] e.k = "handler" ->
         LET s == st[e.s]
             i == s.id
             okw == OkWrites(i)
             lastreg == IF Len(Get(ws, i, <<>>)) = 0 THEN s.t0
                        ELSE LET rs == SelectSeq(ws[i], LAMBDA w : w.retx) IN IF Len(rs) = 0 THEN s.t0 ELSE rs[Len(rs)].reg
         IN
         /\ On("C10") =>
              /\ Require(s.calls = 0, n, "handler-invoked-twice", [s |-> e.s, kind |-> e.kind])
              /\ Require(~InOrder \/ s.ret \in {"none", "nil", "wait"}, n, "handler-after-start-error",
                         [s |-> e.s, err |-> s.ret, kind |-> e.kind, order |-> "handler-after-return", k4 |-> i \in k4])
              /\ Require(e.kind \in {"msg", "timeout", "writeerr", "closed"}, n, "unexpected-completion-kind", [s |-> e.s, kind |-> e.kind, k4 |-> i \in k4])
         /\ (OnO("C11") /\ e.kind = "timeout") =>
                 \* all N retransmissions were made and the clock passed the deadline of the last one
                 Require(Len(SelectSeq(Get(ws, i, <<>>), LAMBDA w : w.retx)) = N /\ e.t > lastreg + (N + 1) * s.rto, n, "timeout-before-last-deadline",
                         [s |-> e.s, transmissions |-> Len(Get(ws, i, <<>>)), limit |-> N + 1, at |-> e.t, last |-> lastreg, k4 |-> i \in k4])
         /\ On("C12") =>
              /\ Require(e.id = i, n, "event-for-another-transaction", [s |-> e.s, handler_id |-> i, event_id |-> e.id, k4 |-> i \in k4])
              /\ ((e.kind = "msg") => Require(Parse(e.msg).ok, n, "undecodable-datagram-delivered", [s |-> e.s, size |-> Len(e.msg)]))
              /\ ((e.kind = "msg") => Require(\E d \in Get(lastDel, e.id, {}) : Trace[d].raw = e.msg, n, "message-is-not-the-received-datagram", [s |-> e.s]))
              \* ... and the attribute list of that Message is the list of that datagram (the reader reuses its Message)
              /\ ((e.kind = "msg") => Require((Has(e, "attrs") /\ Parse(e.msg).ok) =>
                                                  LET pa == Parse(e.msg).attrs IN
                                                  /\ Len(e.attrs) = Len(pa)
                                                  /\ \A a \in 1..Len(pa) : e.attrs[a][1] = pa[a].type /\ e.attrs[a][2] = pa[a].len
                                                                            /\ (pa[a].len = 0 \/ e.attrs[a][3] = pa[a].off),
                                                  n, "attributes-differ-from-the-received-datagram", [id |-> e.id, seen |-> Len(e.attrs)]))
         /\ OnO("C15") => Require(~closeRet, n, "handler-after-close", [s |-> e.s, kind |-> e.kind, p |-> e.p, k4 |-> i \in k4])
         /\ st' = Set(st, e.s, [s EXCEPT !.calls = @ + 1])
         /\ ended' = ended \cup {i}
         /\ pend' = IF e.kind = "msg" /\ pend # << >> /\ Trace[pend.line].raw = e.msg THEN << >> ELSE pend
         /\ UNCHANGED << cfg, ws, cbs, win, closeRet, closeOK, connCloses, lastDel, exited, lastNow, pendGarbage, cbSeen, k4, k2, closing, texit >>
    [] e.k = "fallback" ->
         /\ On("C12") =>
              /\ ((e.kind = "msg" /\ InOrder) => Require(~InFlight(e.id), n, "response-to-fallback-while-in-flight",
                                             [id |-> e.id, in_retransmission_window |-> InK3Window(e.id, e.p), k4 |-> e.id \in k4]))
              \* (timeout / closed events of a transaction that reach the fallback handler are not messages: the
              \*  property is silent about them)
              /\ ((e.kind = "msg") => Require(\E d \in Get(lastDel, e.id, {}) : Trace[d].raw = e.msg, n, "message-is-not-the-received-datagram", [id |-> e.id]))
              /\ ((e.kind = "msg") => Require((Has(e, "attrs") /\ Parse(e.msg).ok) =>
                                                  LET pa == Parse(e.msg).attrs IN
                                                  /\ Len(e.attrs) = Len(pa)
                                                  /\ \A a \in 1..Len(pa) : e.attrs[a][1] = pa[a].type /\ e.attrs[a][2] = pa[a].len
                                                                            /\ (pa[a].len = 0 \/ e.attrs[a][3] = pa[a].off),
                                                  n, "attributes-differ-from-the-received-datagram", [id |-> e.id, seen |-> Len(e.attrs)]))
              /\ ((e.kind = "msg") => Require(Parse(e.msg).ok, n, "undecodable-datagram-delivered", [id |-> e.id, size |-> Len(e.msg)]))
         /\ OnO("C15") => Require(~closeRet, n, "handler-after-close", [kind |-> e.kind, p |-> e.p])
         /\ pend' = IF e.kind = "msg" /\ pend # << >> /\ Trace[pend.line].raw = e.msg THEN << >> ELSE pend   \* (misdelivery is the business of the requirement above)
         /\ UNCHANGED << cfg, st, ws, ended, cbs, win, closeRet, closeOK, connCloses, lastDel, exited, lastNow, pendGarbage, cbSeen, k4, k2, closing, texit >>
    [] e.k = "read_ret" ->
         \* a datagram reaches the reader; a decodable one must end up at its transaction's handler or, when it
         \* matches no transaction, at the fallback handler (if set) - unless the client is being closed
         LET decodable == Parse(e.raw).ok
         IN /\ pend' = IF decodable /\ ~closing
                      THEN [id |-> e.id, line |-> n, expect |-> IF InFlight(e.id) /\ e.id \notin k4 /\ ~InTimeoutCallback(e.id)
                                                                   THEN "handler" ELSE IF cfg.fallback THEN "any" ELSE "none"]
                      ELSE << >>
            /\ UNCHANGED << cfg, st, ws, ended, cbs, win, closeRet, closeOK, connCloses, lastDel, exited, lastNow, pendGarbage, cbSeen, k4, k2, closing, texit >>
    [] e.k = "read" ->
         \* the reader asks for the next datagram: the previous one has been dealt with
         \* (a transaction that ended meanwhile explains a message that went elsewhere; after a drift the
         \*  goroutines run concurrently and this bookkeeping is not evaluated)
         /\ (OnO("C12") /\ pend # << >> /\ ~closing /\ ~closeRet) =>
               Require(pend.expect = "none" \/ (pend.expect = "handler" /\ pend.id \in ended), n, "received-message-not-delivered",
                       [id |-> pend.id, size |-> Len(Trace[pend.line].raw), expected |-> pend.expect])
         /\ pend' = << >>
         /\ UNCHANGED << cfg, st, ws, ended, cbs, win, closeRet, closeOK, connCloses, lastDel, exited, lastNow, pendGarbage, cbSeen, k4, k2, closing, texit >>
    [] e.k = "close_call" ->
         /\ closing' = TRUE
         /\ UNCHANGED << cfg, st, ws, ended, cbs, win, closeRet, closeOK, connCloses, lastDel, exited, lastNow, pendGarbage, cbSeen, k4, k2, pend, texit >>
    [] e.k = "deliver" ->
         \* every datagram delivered for the id (responses to retransmissions may differ)
         /\ lastDel' = IF e.kind = "msg" THEN Set(lastDel, e.id, Get(lastDel, e.id, {}) \cup {n}) ELSE lastDel
         /\ UNCHANGED << cfg, st, ws, ended, cbs, win, closeRet, closeOK, connCloses, exited, lastNow, pendGarbage, cbSeen, k4, k2, pend, closing, texit >>
    [] e.k = "close_ret" ->
         /\ On("C15") =>
              \* exactly one Close succeeds: never a second success; every other result is ErrClientClosed
              \* (concurrent callers may see it before the successful call has returned)
              /\ Require(e.err \in {"nil", "closeerr", "closed"} /\ ((e.err \in {"nil", "closeerr"}) => closeOK = 0) , n, "close-result",
                         [err |-> e.err, successful_closes_before |-> closeOK])
              /\ Require((e.err = "closed") => (closeOK > 0 \/ Has(e, "free")), n, "close-refused-before-any-close-succeeded",
                         [err |-> e.err])
              /\ (e.err \notin {"nil", "closeerr"}) \/
                    /\ Require(e.alive = <<>> /\ (Has(e, "free") \/ "CL" \in exited), n, "goroutine-alive-when-close-returns",
                               [alive |-> e.alive, exited |-> exited])
                    /\ Require(connCloses = (IF cfg.closeconn THEN 1 ELSE 0), n, "connection-ownership",
                               [conn_closes |-> connCloses, closeconn |-> cfg.closeconn])
         /\ closeRet' = (closeRet \/ e.err \in {"nil", "closeerr"})
         /\ closeOK' = closeOK + (IF e.err \in {"nil", "closeerr"} THEN 1 ELSE 0)
         /\ ended' = IF e.err \in {"nil", "closeerr"} THEN ended \cup { st[s].id : s \in DOMAIN st } ELSE ended
         /\ UNCHANGED << cfg, st, ws, cbs, win, connCloses, lastDel, exited, lastNow, pendGarbage, cbSeen, k4, k2, pend, closing, texit >>
    [] e.k = "close_ret2" ->
         \* a second, concurrent Close (free-running runs): exactly one of all Close calls succeeds
         /\ On("C15") => Require(e.err \in {"nil", "closeerr", "closed"} /\ ((e.err \in {"nil", "closeerr"}) => closeOK = 0), n, "close-result",
                                 [err |-> e.err, successful_closes_before |-> closeOK])
         /\ closeOK' = closeOK + (IF e.err \in {"nil", "closeerr"} THEN 1 ELSE 0)
         /\ UNCHANGED << cfg, st, ws, ended, cbs, win, closeRet, connCloses, lastDel, exited, lastNow, pendGarbage, cbSeen, k4, k2, pend, closing, texit >>
    [] e.k = "conn_close" ->
         /\ On("C15") => Require(cfg.closeconn /\ connCloses = 0, n, "connection-ownership",
                                 [conn_closes |-> connCloses + 1, closeconn |-> cfg.closeconn])
         /\ connCloses' = connCloses + 1
         /\ UNCHANGED << cfg, st, ws, ended, cbs, win, closeRet, closeOK, lastDel, exited, lastNow, pendGarbage, cbSeen, k4, k2, pend, closing, texit >>
    [] e.k = "exit" ->
         \* the reader goroutine lives until Close: whatever it reads, it goes on reading
         /\ On("C12") => Require(e.p # "RD" \/ closing, n, "reader-stopped-before-close", [p |-> e.p])
         /\ exited' = exited \cup {e.p}
         /\ UNCHANGED << cfg, st, ws, ended, cbs, win, closeRet, closeOK, connCloses, lastDel, lastNow, pendGarbage, cbSeen, k4, k2, pend, closing, texit >>
    [] e.k = "end" ->
         /\ On("C15") => Require(closing => closeOK <= 1, n, "close-result", [successful_closes |-> closeOK])
         \* a run that was let free after a drift is recorded up to quiescence: a Close that was called has returned
         /\ (On("C15") /\ Has(e, "drifted") /\ e.drifted /\ ~(Has(e, "free") /\ e.free)) =>
               Require((Has(e, "close_started") /\ e.close_started) => e.close_returned, n, "close-did-not-return", [closing |-> closing])
         \* quiescence: Close returned and every Start returned
         /\ (On("C10") /\ closeRet /\ \A s \in DOMAIN st : st[s].ret # "none") =>     \* ("wait": a Do whose Start returned nil)
              \A s \in DOMAIN st :
                /\ ((st[s].ret \in {"nil", "wait"} /\ ~st[s].ind) => Require(st[s].calls = 1, n, "handler-never-invoked",
                                               [s |-> s, calls |-> st[s].calls, closed |-> closeRet]))
                /\ ((st[s].ret = "wait" /\ st[s].fin >= 1) => Require(FALSE, n, "do-did-not-return-after-its-handler",
                                               [s |-> s, calls |-> st[s].calls, finished |-> st[s].fin]))
         /\ UNCHANGED vars_noL
    [] e.k = "drift" ->
         \* the behaviour could not be followed: from here on the goroutines run concurrently and only the
         \* requirements that do not depend on the exact order of concurrent events stay armed (InOrder)
         /\ Drift(n, e.why, [p |-> e.p, from |-> e.from, want |-> e.want, got |-> e.got])
         /\ pendGarbage' = TRUE
         /\ UNCHANGED << cfg, st, ws, ended, cbs, win, closeRet, closeOK, connCloses, lastDel, exited, lastNow, cbSeen, k4, k2, pend, closing, texit >>
    [] e.k = "race" -> Reject(n, "data-race", e.report) /\ UNCHANGED vars_noL
    [] e.k = "libpanic" -> Reject(n, "library-panic", e.report) /\ UNCHANGED vars_noL
    [] e.k = "stuck" -> Reject(n, "stuck-goroutines", e.report) /\ UNCHANGED vars_noL
    [] OTHER -> UNCHANGED vars_noL      \* tick, close_call: no requirement attached

Next == /\ l <= NLines
        /\ Step(l, Trace[l])
        /\ Consumed(l)
        /\ l' = l + 1
Spec == Init /\ [][Next]_vars
=============================================================================
