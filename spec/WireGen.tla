------------------------------- MODULE WireGen -------------------------------
(***************************************************************************)
(* Generator of *length structures* for C01/C02: declared length and the   *)
(* sequence of attribute length fields, chosen relative to the remaining   *)
(* body so that every guard of a decoder is hit from both sides.  A        *)
(* structure is final when the body is tiled exactly, when fewer than 4    *)
(* bytes remain, or when the last length field overflows the body.         *)
(* For every final structure TLC checks, on canonical bytes and for every  *)
(* buffer-length class and cookie, that the grammar and the parser agree   *)
(* and that the verdict is the one the structure predicts.  Final          *)
(* structures are exported (prefix "VEC ") and instantiated with random    *)
(* content by the Go driver.                                               *)
(***************************************************************************)
EXTENDS StunWire, TLC, Json, FiniteSets

CONSTANTS B,          \* body bound
          Full        \* TRUE: full choice set; FALSE: reduced set

VARIABLES decl, lens, used, over

vars == << decl, lens, used, over >>

DeclSet == (0..B) \cup {65535}

\* value length that exactly fills the remaining body
Fit == decl - used - 4

LenChoices ==
  LET rel == IF Full THEN { Fit + k : k \in -5..1 } ELSE { Fit - 1, Fit, Fit + 1 }
      abs == IF Full THEN {0, 1, 2, 3, 4, 5, 7, 8, 9} ELSE {0, 1, 4}
  IN { n \in (rel \cup abs \cup {65535}) : n >= 0 /\ n <= 65535 }

Init == decl \in DeclSet /\ lens = <<>> /\ used = 0 /\ over = FALSE

Final == over \/ decl - used < 4 \/ decl = 65535

AddAttr(n) ==
  /\ ~Final
  /\ lens' = Append(lens, n)
  /\ used' = used + 4 + Pad4(n)
  /\ over' = (used + 4 + Pad4(n) > decl)
  /\ UNCHANGED decl

Next == \E n \in LenChoices : AddAttr(n)

Spec == Init /\ [][Next]_vars

---------------------------------------------------------------------------
\* canonical instantiation: zero content, type 0x0001, given buffer delta and cookie
RECURSIVE Body(_, _)
Body(ls, room) ==
  IF ls = <<>> \/ room < 4 THEN Zeros(room)
  ELSE LET n == Head(ls)
           v == IF 4 + Pad4(n) <= room THEN 4 + Pad4(n) ELSE room
       IN << 0, 1 >> \o U16Bytes(n) \o Zeros(v - 4) \o Body(Tail(ls), room - v)

Canon(delta, goodCookie) ==
  LET d    == IF decl = 65535 THEN 64 ELSE decl       \* materialised body for the 0xFFFF case
      body == Body(lens, d)
      hdr  == << 0, 1 >> \o U16Bytes(decl) \o
              (IF goodCookie THEN << 33, 18, 164, 66 >> ELSE << 33, 18, 164, 67 >>) \o Zeros(12)
      all  == hdr \o body \o Fill(17, 255)
      n    == HeaderSize + d + delta
  IN SubSeq(all, 1, IF n < 0 THEN 0 ELSE n)

Deltas == {-21, -1, 0, 1, 3, 4, 17}

Tiled == ~over /\ used = decl

\* the design statement: grammar = parser = what the structure predicts
Agreement ==
  Final =>
    \A delta \in Deltas, ck \in BOOLEAN :
      LET b == Canon(delta, ck)
          p == Parse(b)
      IN /\ p.ok = WellFramed(b)
         /\ p.ok = ParseRecOK(b)
         /\ p.ok => p.attrs = ParseRecAttrs(b)
         /\ p.ok = (Tiled /\ ck /\ delta >= 0 /\ decl # 65535)
         /\ p.ok => (ViewsInsideBody(b, p) /\ Len(p.attrs) = Len(lens) /\ LooksLikeMessage(b))
         /\ p.ok => \A i \in 1..Len(lens) : p.attrs[i].len = lens[i]

Export == Final => PrintT("VEC " \o ToJson([decl |-> decl, lens |-> lens, tiled |-> Tiled]))
=============================================================================
