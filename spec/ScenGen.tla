------------------------------- MODULE ScenGen -------------------------------
(***************************************************************************)
(* Scenario spaces that are plain finite products, enumerated completely   *)
(* by TLC and exported for the drivers (prefix "VEC "):                    *)
(*  C07: getter/checker x value length x position x spare capacity x fill  *)
(*  C09: setter x argument class x preceding content                       *)
(***************************************************************************)
EXTENDS Integers, Sequences, TLC, Json

CONSTANTS Which, Lens

Getters == {"xor", "xoras", "mapped", "altserver", "origin", "other", "username", "realm", "nonce", "software",
            "errorcode", "unknown", "integrity", "fingerprint"}
Positions == {"first", "middle", "last"}
Caps == {0, 1, 3, 4, 64}
Fills == {"zero", "ff", "random"}

Setters == {"username", "realm", "nonce", "software", "reason", "xorip", "mappedip", "altserver", "origin", "other",
            "errorcode", "integrity"}
Contexts == {"empty", "one", "three", "fp", "fp-then-attr"}

\* C08: a "use" of a Message - how it is filled (decode family or build family), with how many attributes
\* and of which value-length class (every padding residue, shorter/equal/longer than the neighbour use)
Uses == [kind : {"decode", "write", "unmarshal", "readfrom", "build", "addonly"}, n : {0, 1, 3}, vlen : {1, 2, 3, 4, 9, 30}]

VARIABLE s
Init ==
  IF Which = "C07"
  THEN s \in [g : Getters, len : Lens, pos : Positions, cap : Caps, fill : Fills]
  ELSE IF Which = "C08"
  THEN s \in [prev : Uses, next : Uses]
  ELSE s \in [setter : Setters, ctx : Contexts]
Next == UNCHANGED s
Spec == Init /\ [][Next]_s
Export == PrintT("VEC " \o ToJson(s))
=============================================================================
