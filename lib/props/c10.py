"""C10 - see props/client.py."""
from props import client


def run(ctx):
    return client.run(ctx, "C10")
