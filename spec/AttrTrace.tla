------------------------------ MODULE AttrTrace ------------------------------
(***************************************************************************)
(* Trace validation for C06: three equalities per value -                  *)
(*  src = "lib": the bytes the library wrote are the RFC encoding, the     *)
(*               independent decoder reads them back to the value, and the *)
(*               library's own getter on the re-decoded message returns    *)
(*               the value;                                                *)
(*  src = "ref": bytes produced by the reference encoder (by TLC, in GEN)  *)
(*               are read correctly by the library's getter.               *)
(* adderr = 1 (setter refused a valid value) is a rejection here; values   *)
(* beyond the limits are C09's business and are not generated.             *)
(***************************************************************************)
EXTENDS TraceBase, StunAttrs

VARIABLE l

AddrLine(n, e) ==
  LET want == IF e.fam = "xor" THEN EncXor(e.ip, e.port, e.tid) ELSE EncMapped(e.ip, e.port)
      dec  == IF e.fam = "xor" THEN DecXor(e.enc, e.tid) ELSE DecMapped(e.enc)
  IN /\ Require(e.adderr = 0, n, "setter-refused-valid-value", [ip |-> e.ip, port |-> e.port])
     /\ (e.adderr = 0) =>
          /\ Require(e.enc = want, n, "wire-format", [atype |-> e.atype, got |-> e.enc, want |-> want])
          /\ Require(WellFormedAddr(e.enc) /\ dec.ip = NormIP(e.ip) /\ dec.port = e.port, n,
                     "independent-decoder-disagrees", [enc |-> e.enc])
          /\ Require(e.back.err = 0 /\ e.back.ip = NormIP(e.ip) /\ e.back.port = e.port, n, "round-trip",
                     [src |-> e.src, atype |-> e.atype, want_ip |-> NormIP(e.ip), want_port |-> e.port, got |-> e.back])
          \* the same value must come back whatever the getter held before (4-byte / 16-byte address)
          /\ Require(e.back4 = e.back /\ e.back16 = e.back, n, "round-trip-into-reused-getter",
                     [atype |-> e.atype, fam |-> e.fam, fresh |-> e.back, after4 |-> e.back4, after16 |-> e.back16])

TextLine(n, e) ==
  /\ Require(e.adderr = 0, n, "setter-refused-valid-value", [atype |-> e.atype, len |-> Len(e.val)])
  /\ (e.adderr = 0) =>
       /\ Require(e.enc = e.val, n, "wire-format", [atype |-> e.atype])
       /\ Require(e.back.err = 0 /\ e.back.val = e.val, n, "round-trip", [src |-> e.src, atype |-> e.atype, len |-> Len(e.val)])

ECodeLine(n, e) ==
  LET want == EncErrorCode(e.code, e.reason) IN
  /\ Require(e.adderr = 0, n, "setter-refused-valid-value", [code |-> e.code])
  /\ (e.adderr = 0) =>
       /\ Require(e.enc = want, n, "wire-format", [code |-> e.code, got |-> SubSeq(e.enc, 1, 4), want |-> SubSeq(want, 1, 4)])
       /\ Require(Len(e.enc) >= 4 /\ DecErrorCode(e.enc) = [code |-> e.code, reason |-> e.reason], n,
                  "independent-decoder-disagrees", [code |-> e.code])
       /\ Require(e.back.err = 0 /\ e.back.code = e.code /\ e.back.reason = e.reason, n, "round-trip",
                  [src |-> e.src, code |-> e.code, got_err |-> e.back.err, got_code |-> e.back.code])

UnkLine(n, e) ==
  LET want == EncUnknown(e.list) IN
  /\ Require(e.adderr = 0, n, "setter-refused-valid-value", [len |-> Len(e.list)])
  /\ (e.adderr = 0) =>
       /\ Require(e.enc = want, n, "wire-format", [kind |-> "UNKNOWN-ATTRIBUTES", entries |-> Len(e.list),
                                                   got_len |-> Len(e.enc), want_len |-> Len(want)])
       /\ Require(e.back.err = 0 /\ e.back.list = e.list, n, "round-trip",
                  [src |-> e.src, kind |-> "UNKNOWN-ATTRIBUTES", entries |-> Len(e.list), got_err |-> e.back.err,
                   got_entries |-> Len(e.back.list)])
       /\ Require(e.back_reused = e.back, n, "round-trip-into-reused-getter", [kind |-> "UNKNOWN-ATTRIBUTES", entries |-> Len(e.list)])

CheckLine(n, e) ==
  CASE e.k = "addr"  -> AddrLine(n, e)
    [] e.k = "text"  -> TextLine(n, e)
    [] e.k = "ecode" -> ECodeLine(n, e)
    [] e.k = "unk"   -> UnkLine(n, e)
    [] OTHER -> Reject(n, "unknown-line", e.k)

Init == RegInit /\ l = 1
Next == /\ l <= NLines
        /\ CheckLine(l, Trace[l])
        /\ Consumed(l)
        /\ l' = l + 1
Spec == Init /\ [][Next]_l
=============================================================================
