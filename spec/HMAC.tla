-------------------------------- MODULE HMAC --------------------------------
(***************************************************************************)
(* HMAC, transcribed from RFC 2104 s2:                                     *)
(*                                                                         *)
(*     HMAC(K, text) = H((K0 XOR opad) || H((K0 XOR ipad) || text))        *)
(*                                                                         *)
(* H is a hash operator on byte strings with block size B bytes; K0 is the *)
(* key brought to exactly B bytes: a key longer than B is first hashed     *)
(* with H, then zeros are appended; ipad is B times 0x36, opad B times     *)
(* 0x5c.                                                                   *)
(***************************************************************************)
EXTENDS SHA1, SHA256

Hmac(H(_), B, key, msg) ==
  LET k  == IF Len(key) > B THEN H(key) ELSE key      \* (1) keys longer than B are hashed
      k0 == k \o Zeros(B - Len(k))                    \* (1) append zeros up to B bytes
      inner == H(XorBytes(k0, Fill(B, 54)) \o msg)    \* (2)-(4)  ipad = 0x36
  IN H(XorBytes(k0, Fill(B, 92)) \o inner)            \* (5)-(7)  opad = 0x5c

\* RFC 2104 with H = SHA-1 (B = 64, 20-byte result): the MESSAGE-INTEGRITY of RFC 5389 s15.4
HmacSha1(key, msg) == Hmac(Sha1, 64, key, msg)

\* H = SHA-256 (B = 64, 32-byte result): MESSAGE-INTEGRITY-SHA256 of RFC 8489 s14.6
HmacSha256(key, msg) == Hmac(Sha256, 64, key, msg)

=============================================================================
