SPECIFICATION Spec
CONSTANTS
  MaxDepth = 3
  ValLens = {0, 1, 3, 4, 5}
VIEW View
INVARIANT CoherentAfterBuild
INVARIANT NoLeak
INVARIANT NoLeakAttrs
ACTION_CONSTRAINT PrintEdge
CHECK_DEADLOCK FALSE
