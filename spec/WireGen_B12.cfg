SPECIFICATION Spec
CONSTANTS
  B = 12
  Full = TRUE
INVARIANT Agreement
INVARIANT Export
CHECK_DEADLOCK FALSE
