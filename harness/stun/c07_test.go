//go:build verif

package stun_test

import (
	"bufio"
	"encoding/json"
	"fmt"
	"math/rand"
	"os"
	"testing"

	"github.com/pion/stun/v3"
)

type getScen struct {
	G    string `json:"g"`
	Len  int    `json:"len"`
	Pos  string `json:"pos"`
	Cap  int    `json:"cap"`
	Fill string `json:"fill"`
}

type msgSnap struct {
	Raw   []int    `json:"raw"`
	Len   int      `json:"len"`
	Attrs [][3]int `json:"attrs"`
}

func snap(m *stun.Message) msgSnap {
	return msgSnap{Raw: ints(m.Raw), Len: int(m.Length), Attrs: snapshotAttrs(m)}
}

func getterType(g string) int {
	switch g {
	case "xor":
		return 0x0020
	case "xoras":
		return 0x0012
	case "mapped":
		return 0x0001
	case "altserver":
		return 0x8023
	case "origin":
		return 0x802b
	case "other":
		return 0x802c
	case "username":
		return 0x0006
	case "realm":
		return 0x0014
	case "nonce":
		return 0x0015
	case "software":
		return 0x8022
	case "errorcode":
		return 0x0009
	case "unknown":
		return 0x000a
	case "integrity":
		return 0x0008
	case "fingerprint":
		return 0x8028
	}
	panic("getter " + g)
}

var c07Key = []byte("c07-shared-secret")

// runGetter calls the getter/checker under recover and renders its outcome.
func runGetter(g string, m *stun.Message) (out map[string]interface{}) {
	defer func() {
		if r := recover(); r != nil {
			out = map[string]interface{}{"r": "panic", "panic": fmt.Sprint(r)}
		}
	}()
	res := func(err error, v map[string]interface{}) map[string]interface{} {
		if err != nil {
			return map[string]interface{}{"r": "err"}
		}
		v["r"] = "ok"
		return v
	}
	switch g {
	case "xor", "xoras", "mapped", "altserver", "origin", "other":
		fam := "mapped"
		if g == "xor" || g == "xoras" {
			fam = "xor"
		}
		b := getAddrRaw(fam, getterType(g), m)
		if b.Err != 0 {
			if b.Err < 0 {
				return map[string]interface{}{"r": "panic"}
			}
			return map[string]interface{}{"r": "err"}
		}
		return map[string]interface{}{"r": "ok", "ip": b.IP, "port": b.Port}
	case "username", "realm", "nonce", "software":
		b := getText(getterType(g), m)
		if b.Err != 0 {
			if b.Err < 0 {
				return map[string]interface{}{"r": "panic"}
			}
			return map[string]interface{}{"r": "err"}
		}
		return map[string]interface{}{"r": "ok", "val": b.Val}
	case "errorcode":
		var a stun.ErrorCodeAttribute
		err := a.GetFrom(m)
		return res(err, map[string]interface{}{"code": int(a.Code), "reason": ints(a.Reason)})
	case "unknown":
		var a stun.UnknownAttributes
		err := a.GetFrom(m)
		l := make([]int, len(a))
		for i, t := range a {
			l[i] = int(t)
		}
		return res(err, map[string]interface{}{"list": l})
	case "integrity":
		return res(stun.MessageIntegrity(c07Key).Check(m), map[string]interface{}{})
	case "fingerprint":
		return res(stun.Fingerprint.Check(m), map[string]interface{}{})
	}
	panic("getter " + g)
}

// getAddrRaw is getAddr without its own recover (runGetter recovers).
func getAddrRaw(fam string, atype int, m *stun.Message) addrBack { return getAddrNoRecover(fam, atype, m) }

func getAddrNoRecover(fam string, atype int, m *stun.Message) addrBack {
	b := getAddr(fam, atype, m)
	if b.Err == -1 {
		panic("getter panicked")
	}
	return b
}

func fillByte(r *rand.Rand, fill string) byte {
	switch fill {
	case "zero":
		return 0
	case "ff":
		return 0xff
	}
	return byte(r.Intn(256))
}

func randAttr(r *rand.Rand, avoid int) []byte {
	for {
		t := 1 + r.Intn(0x30)
		if t == avoid || t == 0x0008 || t == 0x0020 {
			continue
		}
		return attrBytes(uint16(t), randBytes(r, r.Intn(12)))
	}
}

// runGetScenario builds a group of twin messages that agree on the target attribute's value (and on whatever
// else the property says the outcome may depend on) and differ in everything else.
func runGetScenario(tw *traceWriter, r *rand.Rand, gid int, sc getScen) {
	at := getterType(sc.G)
	val := randBytes(r, sc.Len)
	// steer a share of the values towards the well-formed region of each getter
	switch sc.G {
	case "xor", "xoras", "mapped", "altserver", "origin", "other":
		if sc.Len >= 2 && r.Intn(3) != 0 {
			val[0] = 0
			val[1] = byte(1 + r.Intn(2))
			if sc.Len == 8 {
				val[1] = 1
			} else if sc.Len == 20 {
				val[1] = 2
			}
		}
	}
	var tid [stun.TransactionIDSize]byte
	copy(tid[:], randBytes(r, 12))
	mtype := []byte{byte(r.Intn(0x40)), byte(r.Intn(256))}
	// the part every member shares: header fields + (for the checkers) the covered prefix
	var sharedBefore []byte
	if sc.Pos != "first" {
		for i, n := 0, 1+r.Intn(2); i < n; i++ {
			sharedBefore = append(sharedBefore, randAttr(r, at)...)
		}
	}
	validMAC := sc.G == "integrity" && sc.Len == 20 && r.Intn(2) == 0
	validCRC := sc.G == "fingerprint" && sc.Len == 4 && sc.Pos == "last" && r.Intn(2) == 0
	for mem := 0; mem < 3; mem++ {
		raw := []byte{mtype[0], mtype[1], 0, 0, 0x21, 0x12, 0xA4, 0x42}
		raw = append(raw, tid[:]...)
		shareAll := sc.G == "integrity" || sc.G == "fingerprint"
		if sc.Pos != "first" {
			if shareAll {
				raw = append(raw, sharedBefore...)
			} else {
				for i, n := 0, 1+r.Intn(2); i < n; i++ {
					raw = append(raw, randAttr(r, at)...)
				}
			}
		}
		targetStart := len(raw)
		ta := attrBytes(uint16(at), val)
		for i := 4 + len(val); i < len(ta); i++ {
			if sc.G == "fingerprint" {
				ta[i] = 0 // padding lies inside the span the CRC covers only for later attributes; keep members equal
			} else {
				ta[i] = fillByte(r, sc.Fill)
			}
		}
		raw = append(raw, ta...)
		var after []byte
		if sc.Pos != "last" {
			if sc.G == "fingerprint" {
				// everything before the last 8 raw bytes is covered: members must share it
				rr := rand.New(rand.NewSource(int64(gid)))
				for i, n := 0, 1+rr.Intn(2); i < n; i++ {
					after = append(after, randAttr(rr, at)...)
				}
			} else {
				for i, n := 0, 1+r.Intn(2); i < n; i++ {
					after = append(after, randAttr(r, at)...)
				}
			}
		}
		raw = append(raw, after...)
		setLen(raw)
		if validMAC {
			// a correct MAC over the shared prefix (computed with the library on a scratch message)
			pm, ok := decodeCopy(setLen(append([]byte(nil), raw[:targetStart]...)), 64)
			if ok && stun.MessageIntegrity(c07Key).AddTo(pm) == nil {
				copy(raw[targetStart+4:targetStart+24], pm.Raw[len(pm.Raw)-20:])
			}
		}
		if validCRC {
			fv := stun.FingerprintValue(raw[:len(raw)-8])
			raw[len(raw)-4], raw[len(raw)-3], raw[len(raw)-2], raw[len(raw)-1] = byte(fv>>24), byte(fv>>16), byte(fv>>8), byte(fv)
		}
		buf := make([]byte, len(raw), len(raw)+sc.Cap)
		copy(buf, raw)
		spare := buf[len(raw):cap(buf)]
		for i := range spare {
			spare[i] = fillByte(r, sc.Fill)
		}
		m := &stun.Message{Raw: buf}
		if err := m.Decode(); err != nil {
			panic("c07: built message does not decode: " + err.Error())
		}
		before := snap(m)
		out := runGetter(sc.G, m)
		after2 := snap(m)
		tw.emit(map[string]interface{}{"k": "get", "grp": gid, "mem": mem, "scen": sc, "atype": at, "val": ints(val),
			"tid": ints(tid[:]), "out": out, "before": before, "after": after2})
	}
}

func TestVerifC07(t *testing.T) {
	tw := newTrace(t)
	defer tw.close()
	r := newRand(7)
	p := os.Getenv("VERIF_VECTORS")
	f, err := os.Open(p)
	if err != nil {
		t.Fatal(err)
	}
	defer f.Close()
	sc := bufio.NewScanner(f)
	sc.Buffer(make([]byte, 1<<20), 1<<26)
	gid := 0
	for sc.Scan() {
		var s getScen
		if err := json.Unmarshal(sc.Bytes(), &s); err != nil {
			t.Fatal(err)
		}
		gid++
		runGetScenario(tw, r, gid, s)
	}
}
