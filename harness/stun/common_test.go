//go:build verif

package stun_test

import (
	"bufio"
	"bytes"
	"encoding/json"
	"math/rand"
	"os"
	"strconv"
	"sync"
	"testing"
)

// traceWriter writes one JSON object per line. The harness records; TLC judges.
type traceWriter struct {
	mu   sync.Mutex
	f    *os.File
	w    *bufio.Writer
	n    int
	sync bool
}

func newTrace(t testing.TB) *traceWriter {
	t.Helper()
	p := os.Getenv("VERIF_TRACE_OUT")
	if p == "" {
		t.Skip("VERIF_TRACE_OUT not set")
	}
	f, err := os.Create(p)
	if err != nil {
		t.Fatal(err)
	}
	return &traceWriter{f: f, w: bufio.NewWriterSize(f, 1<<20), sync: os.Getenv("VERIF_TRACE_SYNC") != ""}
}

func (tw *traceWriter) emit(v interface{}) {
	b, err := json.Marshal(v)
	if err != nil {
		panic(err)
	}
	// Json.ndJsonDeserialize has no null: nil slices are written as empty arrays
	b = bytes.ReplaceAll(b, []byte(":null"), []byte(":[]"))
	tw.mu.Lock()
	defer tw.mu.Unlock()
	tw.w.Write(b)
	tw.w.WriteByte('\n')
	tw.n++
	if tw.sync {
		tw.w.Flush() // a panic inside a library goroutine must not take the recorded behaviour with it
	}
}

func (tw *traceWriter) close() {
	tw.mu.Lock()
	defer tw.mu.Unlock()
	tw.w.Flush()
	tw.f.Close()
}

func seed() int64 {
	s, err := strconv.ParseInt(os.Getenv("VERIF_SEED"), 10, 64)
	if err != nil {
		return 1
	}
	return s
}

func thorough() bool { return os.Getenv("VERIF_TIER") == "thorough" }

func envInt(name string, def int) int {
	v, err := strconv.Atoi(os.Getenv(name))
	if err != nil {
		return def
	}
	return v
}

func newRand(salt int64) *rand.Rand { return rand.New(rand.NewSource(seed()*1000003 + salt)) }

// ints renders a byte string as a JSON array of numbers (TLA+ sequence of 0..255).
func ints(b []byte) []int {
	r := make([]int, len(b))
	for i, x := range b {
		r[i] = int(x)
	}
	return r
}

func unints(a []int) []byte {
	r := make([]byte, len(a))
	for i, x := range a {
		r[i] = byte(x)
	}
	return r
}
