------------------------------ MODULE ClientSim ------------------------------
(* Random behaviours of the two-start Client model for replay: a history    *)
(* variable collects the labels; a behaviour is printed ("HIST ...") when it *)
(* reaches the depth bound or a state without successor.  Used with          *)
(* `tlc -simulate` only (the history makes every state unique).              *)
EXTENDS ClientMC
CONSTANT Depth
VARIABLE hist
SimInit == Init /\ hist = <<>>
SimNext == Next /\ hist' = Append(hist, Label)
SimSpec == SimInit /\ [][SimNext]_<< vars, hist >>
Emit == (Len(hist) >= Depth \/ ~ENABLED Next) => PrintT("HIST " \o ToJson(hist))
=============================================================================
