#!/usr/bin/env python3
"""Regenerates /verif/MANIFEST.json from the table below (run after adding a check)."""
import json
import os

VERIF = os.path.dirname(os.path.dirname(os.path.abspath(__file__)))

# id -> (built, design_ref, technique, level text, level note)
CHECKS = {
 "C19": (True, "DESIGN.md §4 C19",
         "TLC exhaustive check of the RFC figure-3 layout + TLC trace validation of the complete Value/ReadValue tables dumped from the real code",
         "Complete-domain equality: TLC checks the round-trip/bijection properties of the figure-3 position table on all 16384 pairs and 65536 values, and a TLA+ trace specification compares every entry of the real code's tables with that reference. Exhaustive, so the property is decided for the whole domain.",
         "Trusted: the transcription of figure 3 into StunType.Layout, TLC, the Go harness that dumps the tables (records only)."),
 "C13": (True, "DESIGN.md §4 C13",
         "TLC exhaustive state graph of the Agent specification; every transition replayed on the real Agent (transition cover) and the recorded calls/results/events validated by a TLA+ trace specification; seeded random long and mass-expiry sequences validated the same way; the accounting invariant lifted to unbounded histories with Apalache (inductive step) and proved with TLAPS for any set of ids",
         "The Agent module is the property. TLC enumerates every reachable state and transition for 3 (quick) / 4 (thorough) ids, 4/5 time points and 2 handlers and checks exactly-one-terminal-event, silence after Close and stability on the design; each transition is then executed on a fresh real Agent and the recorded result and event multiset must be the model's (three monotone embeddings of the abstract time points, incl. extreme time values).",
         "Trusted: AgentCore as the reading of the property text; TLC; the recording harness. Histories longer than the bound are covered by random sampling only."),
 "C02": (True, "DESIGN.md §4 C02",
         "TLC enumerates all length structures up to a body bound and checks grammar = recursive parser = scanning parser on them; the structures are instantiated and fed to the 7 decode entry points of the real code; a TLA+ trace specification compares verdict, header fields, TLV list, value bytes and Get/Contains/ForEach with the RFC 5389 reference parse",
         "Equality with an independent executable RFC 5389 framing specification (StunWire) on every enumerated length structure (x buffer-length classes x capacities x entry points) and on seeded random / mutated / maximum-size inputs; the reference itself is model-checked for agreement between its declarative and algorithmic formulations.",
         "Trusted: StunWire as the reading of RFC 5389 s6/s15; TLC; the recording harness. Inputs beyond the body bound are sampled, not enumerated."),
 "C01": (True, "DESIGN.md §4 C01",
         "same generator and drivers as C02; a TLA+ trace specification checks no panic / no hang / allocation bound / value views inside the declared body, ordered and disjoint / IsMessage, for every entry point and capacity",
         "Totality and view-safety requirement monitor evaluated by TLC on every enumerated length structure and on random, mutated and maximum-size inputs, for all 7 entry points and two buffer capacities; panics are observed through recover, non-termination through a watchdog, allocation through runtime.MemStats.",
         "Trusted: Go bounds checking (memory safety is observed as panics), MemStats accuracy, TLC, the harness. The allocation bound (64n+4096) is an interpretation of 'small multiple of the input'."),
 "C04": (True, "DESIGN.md §4 C04",
         "TLC enumerates MAC shapes and checks the StunAuth theorems with HMAC-SHA1/MD5 written in TLA+; the library signs/checks each shape and a TLA+ trace specification recomputes every verdict and every appended MAC from the bytes",
         "Check = nil iff the RFC 5389 s15.4 reference (first MESSAGE-INTEGRITY, 20 bytes, HMAC-SHA1 over the prefix with rewritten length) says so, for every TLC-enumerated shape x MAC variant x key class, under the signing key, a random key and a one-bit-different key; exhaustive single-bit sweeps of signed messages; AddTo bytes equal the reference; long-term key = MD5(u:r:p); refusal after FINGERPRINT leaves the message unchanged.",
         "Trusted: the TLA+ transcriptions of SHA-1, MD5, HMAC (validated against RFC/FIPS vectors), StunAuth as the reading of s15.4, TLC, the recording harness."),
 "C05": (True, "DESIGN.md §4 C05",
         "CRC-32 and the s15.5 rule written in TLA+; TLC trace validation of the setter's bytes, of Check on every single-bit flip (exhaustive per message) and random bursts of fingerprinted messages, and on arbitrary messages with FINGERPRINT attributes incl. near-miss CRC spans",
         "Check = nil iff the reference (first FINGERPRINT is 4 bytes and equals CRC-32 of everything before the last 8 raw bytes, XOR 0x5354554e) says so on every recorded variant; the detection clause is checked directly on every flip/burst in which FINGERPRINT stays the only such attribute; setter output equals the reference bytes.",
         "Trusted: the TLA+ CRC-32 (bit-serial definition, table form checked equal), StunAuth as the reading of s15.5, TLC, the harness."),
 "C18": (True, "DESIGN.md §4 C18",
         "TLC exhaustive check of the implementation-shaped HmacPool model (all reuse histories, abstract digests); its transition cover replayed through AcquireSHA1/SHA256..Put on the real pool; every recorded digest recomputed by a TLA+ trace specification from HMAC/SHA-1/SHA-256 written in TLA+; 16 goroutines under -race",
         "Every digest the pooled API produced in the replayed and random histories equals RFC 2104 HMAC of (key of the current acquisition, chunks since the last reset) as computed by TLC; the design model proves Sum = HMAC for every reuse history of two pooled objects (marshaled-state cache, re-keying).",
         "Trusted: TLA+ transcriptions of SHA-1/SHA-256/HMAC (validated against FIPS/RFC vectors), TLC, the harness; race freedom only on executed schedules (Go race detector)."),
 "C06": (True, "DESIGN.md §4 C06",
         "RFC 5389 s15 attribute codecs written in TLA+; TLC enumerates the case structure and checks the reference round trip; each value is driven three ways through the real setters/getters and a TLA+ trace specification checks wire bytes = reference encoding, independent decode = value, library round trip = value, reference-encoded bytes read correctly",
         "Three equalities with an independent executable RFC codec for every enumerated case and for the complete numeric sub-domains (all 65536 ports, all codes 300..699, every text length up to the limits, lists of 0..64 types) under random transaction IDs and addresses.",
         "Trusted: StunAttrs as the reading of RFC 5389 s15 / RFC 5780, TLC, the harness."),
 "C07": (True, "DESIGN.md §4 C07",
         "TLC enumerates the complete scenario product (getter/checker x value length x position x capacity x fill); each scenario is driven as a group of twin messages on the real getters; a TLA+ trace specification checks no panic, snapshot unchanged, identical outcome within the group, and (I layer) outcome = RFC reference decoding",
         "Totality, locality (twin groups that differ only in what the outcome must not depend on) and side-effect freedom judged by TLC on every scenario of the product, for 14 getters/checkers.",
         "Trusted: 3 random twins per scenario stand for 'all surroundings'; TLC; harness. Memory beyond the value is observed through capacity-exact buffers (panic) and poisoned spare bytes (outcome change)."),
 "C09": (True, "DESIGN.md §4 C09",
         "RFC limits and default-reason table in TLA+ (StunAttrs); TLC enumerates setter x preceding content; the driver sweeps arguments on both sides of every limit; a TLA+ trace specification checks err iff ShouldReject, failing setter leaves Raw/Length/Attributes unchanged, Build stops at the first failing setter",
         "Requirement monitor err <=> ShouldReject and atomic failure, evaluated by TLC on every recorded setter call and Build.",
         "Trusted: the limits/table as transcribed from the RFCs; TLC; harness."),
 "C03": (True, "DESIGN.md §4 C03",
         "implementation-shaped TLA+ model of Message (struct + Raw + retained storage) model-checked over all building/decoding histories to a depth bound; its transition cover replayed on real Messages; a TLA+ trace specification checks the observed state after every step with the independent RFC parse (R) and against the model's step function (I)",
         "After every building operation of every enumerated history (17 operations, canonical and non-canonical decoded starts, poison-filled storage) and of seeded random histories (values to 3000 bytes), the observed Raw is well-formed and equals the struct by the reference parse, canonical where the history is canonical, Equal agrees, decode-then-encode yields the canonical bytes; single-step conformance to Message.tla incl. retained bytes.",
         "Trusted: StunWire, the scope interpretation in DESIGN.md C03, TLC, harness. Histories beyond depth 4 (quick) / 5 (thorough) only by random sampling."),
 "C08": (True, "DESIGN.md §4 C08",
         "Message.tla's retained-storage model checked for NoLeak over all histories (TLC); all (previous use, next use) pairs enumerated by TLC and driven on poison-filled real Messages against a fresh twin; a TLA+ trace specification requires reused = twin, content = reference parse of its own bytes, and immunity to caller-side overwrites",
         "Twin equality and copy semantics judged by TLC for every pair of uses (6 kinds x sizes covering every padding residue and shorter/equal/longer relations) and sampled triples; CloneTo/MarshalBinary/GobEncode copies stay intact when the source changes.",
         "Trusted: poison patterns make leaks visible; TLC; harness."),
 "C16": (True, "DESIGN.md §4 C16",
         "ParseURI transcribed into TLA+ (UriCore/UriImpl: url.Parse opaque/query split, net.SplitHostPort case by case, default-port retry); TLC checks bounded retry and termination (liveness) for every abstract string up to a length bound; every such string is run through the real ParseURI in isolated worker processes and a TLA+ trace specification requires returned-or-error (R) and agreement with UriImpl (I); native sweeps and long/random inputs summarised per batch",
         "Termination and crash-freedom observed per input in a supervised worker process (stack limit, progress watchdog) for every abstract string (x2 concrete representatives), for all strings over a 20-symbol alphabet up to length 4/5 after each scheme, and for random/mutated/very long inputs; the transcribed parser is model-checked to terminate with at most one retry.",
         "Trusted: the worker supervision protocol, TLC, the transcription (its disagreement with the code is drift, not a verdict)."),
 "C17": (True, "DESIGN.md §4 C17",
         "RFC 7064/7065 component-level reference (UriRef) in TLA+; TLC enumerates the complete component product and exports each URI; the real ParseURI/String/DialURI (injected transport.Net, first-bytes classification, in-memory TLS servers) are recorded and a TLA+ trace specification checks defaults, must-accept/must-reject classes, field constraints, round trip and the dial plan",
         "Every URI of the component product (5040) and 3 mutations of each judged by TLC against UriRef; all hand-made scheme/transport combinations and every parser-producible shape dialled; secure connections sharing a DialConfig must each authenticate their own host.",
         "Trusted: UriRef's classification as the reading of the property; wire-level observation of the wrapping; TLC; harness."),
 "C14": (True, "DESIGN.md §4 C14",
         "TLC as linearizability checker: recorded concurrent histories of the real Agent (invoke/return stamped by one atomic counter, nested calls from handlers) are searched for a linearization against the sequential TLA+ specification (AgentCore) with just-in-time linearization points and a depth-first state queue; binary built with -race; watchdog for stuck goroutines",
         "Every recorded history (8/16 goroutines contending on 3-4 ids, in-flight width 4/6, barriers every 30 calls, one Close per history, handlers calling back into the agent) is accepted by AgentLin, i.e. explainable by one sequential order respecting real-time order, including exactly-one-terminator; no race report; no stuck goroutine.",
         "Trusted: Go race detector (executed schedules only), atomic stamping, AgentCore, TLC. A history TLC cannot decide within its time budget is inconclusive."),
 "C10": (True, "DESIGN.md §4 C10",
         'gate-level TLA+ model of the client (Client.tla: callers that are Start, Do or Indicate, reader, collector, closer, environment; pooled transaction objects and pooled Do wait handlers with identity; the client-table registration as an action of its own) model-checked exhaustively; the transition cover of five configurations plus simulated two-caller behaviours replayed on a real Client through a delegating agent, scripted connection, virtual clock, scripted collector and one verif-tagged gate hook (one goroutine released per model action; after a drift the schedule is followed as a script); free-running runs under the race detector; the recorded event log judged by a TLA+ requirement monitor (ClientTrace.tla), the real Agent\'s own history inside these runs by AgentTrace.tla against AgentCore',
         'Exactly-once completion: handler invocations <= 1 always, none after a Start error, exactly one (response / timeout / write error / closed) for every successful Start once Close has returned - checked by TLC on the design for all interleavings of one and two transactions and by the monitor on every replayed schedule, incl. failing writes, duplicate responses and Close at every point. Client.Do is a model action of its own (the caller waits in D_wait until its handler has finished; DoWaits, DoNotStuck): every replayed Do must stay blocked until the handler returned and come back afterwards; a panic inside a library goroutine is an event of the schedule it happened in (library-panic).',
         'Trusted: Client.tla as a gate-level transcription of client.go (conformance is checked: every replayed step must end at the gate the model predicts, drift = 0 on the unchanged tree); the gate controller (one runnable goroutine at a time); TLC. Known findings K2/K3/K4 are matched by narrow window signatures (known_findings.json). Two concurrent ids are model-checked; replay covers one id exhaustively.'),
 "C11": (True, "DESIGN.md §4 C11",
         'gate-level TLA+ model of the client (Client.tla: callers that are Start, Do or Indicate, reader, collector, closer, environment; pooled transaction objects and pooled Do wait handlers with identity; the client-table registration as an action of its own) model-checked exhaustively; the transition cover of five configurations plus simulated two-caller behaviours replayed on a real Client through a delegating agent, scripted connection, virtual clock, scripted collector and one verif-tagged gate hook (one goroutine released per model action; after a drift the schedule is followed as a script); free-running runs under the race detector; the recorded event log judged by a TLA+ requirement monitor (ClientTrace.tla), the real Agent\'s own history inside these runs by AgentTrace.tla against AgentCore',
         "Bit-identical, bounded, on-schedule retransmissions: every write compared byte for byte with the message at Start (sizes 20..65535, caller overwrites its message after Start), count <= n+1, each retransmission's own clock reading beyond the previous deadline, timeout only after the last deadline, nothing written after the end - on every replayed schedule with clock ticks before/at/after each deadline.",
         'Trusted: Client.tla as a gate-level transcription of client.go (conformance is checked: every replayed step must end at the gate the model predicts, drift = 0 on the unchanged tree); the gate controller (one runnable goroutine at a time); TLC. Known findings K2/K3/K4 are matched by narrow window signatures (known_findings.json). Two concurrent ids are model-checked; replay covers one id exhaustively.'),
 "C12": (True, "DESIGN.md §4 C12",
         'gate-level TLA+ model of the client (Client.tla: callers that are Start, Do or Indicate, reader, collector, closer, environment; pooled transaction objects and pooled Do wait handlers with identity; the client-table registration as an action of its own) model-checked exhaustively; the transition cover of five configurations plus simulated two-caller behaviours replayed on a real Client through a delegating agent, scripted connection, virtual clock, scripted collector and one verif-tagged gate hook (one goroutine released per model action; after a drift the schedule is followed as a script); free-running runs under the race detector; the recorded event log judged by a TLA+ requirement monitor (ClientTrace.tla), the real Agent\'s own history inside these runs by AgentTrace.tla against AgentCore',
         'Routing: a handler only ever sees events of its own transaction id and exactly the received datagram (sizes up to the 1024-byte read buffer); a decodable datagram the reader consumed reaches its transaction or the fallback handler; responses never go to the fallback handler while their transaction is in flight (outside the known window K3, which in the gated replay ends exactly where the retransmission path has re-registered the transaction); the reader goroutine survives every datagram (undecodable, shorter than a header, empty) until Close.',
         'Trusted: Client.tla as a gate-level transcription of client.go (conformance is checked: every replayed step must end at the gate the model predicts, drift = 0 on the unchanged tree); the gate controller (one runnable goroutine at a time); TLC. Known findings K2/K3/K4 are matched by narrow window signatures (known_findings.json). Two concurrent ids are model-checked; replay covers one id exhaustively.'),
 "C15": (True, "DESIGN.md §4 C15",
         'gate-level TLA+ model of the client (Client.tla: callers that are Start, Do or Indicate, reader, collector, closer, environment; pooled transaction objects and pooled Do wait handlers with identity; the client-table registration as an action of its own) model-checked exhaustively; the transition cover of five configurations plus simulated two-caller behaviours replayed on a real Client through a delegating agent, scripted connection, virtual clock, scripted collector and one verif-tagged gate hook (one goroutine released per model action; after a drift the schedule is followed as a script); free-running runs under the race detector; the recorded event log judged by a TLA+ requirement monitor (ClientTrace.tla), the real Agent\'s own history inside these runs by AgentTrace.tla against AgentCore',
         'Close: exactly one successful Close (nil or CloseErr with injected agent/connection errors), reader and collector gone when it returns, connection closed exactly once or never under WithNoConnClose, no handler afterwards, Starts begun afterwards refused without writing - on every replayed schedule with Close at any point.',
         'Trusted: Client.tla as a gate-level transcription of client.go (conformance is checked: every replayed step must end at the gate the model predicts, drift = 0 on the unchanged tree); the gate controller (one runnable goroutine at a time); TLC. Known findings K2/K3/K4 are matched by narrow window signatures (known_findings.json). Two concurrent ids are model-checked; replay covers one id exhaustively.'),
 "C20": (True, "DESIGN.md §4 C20",
         "capacity/demand model (Alloc.tla) enumerated by TLC over warm-up shape x measured shape x operation; each triple measured on the real code with testing.AllocsPerRun; a TLA+ trace specification requires zero allocations (R) and checks that allocations occur exactly where the model says the design must allocate (I)",
         "Zero-allocation requirement on every sampled in-scope triple (all design corners kept); the explanation model agrees with every measurement (drift 0), so the scenario space is understood rather than merely sampled.",
         "Trusted: testing.AllocsPerRun / escape analysis of the installed Go toolchain; TLC; harness. Known findings K1, K6."),
}

ALL = ["C%02d" % i for i in range(1, 21)]


def main():
    checks = []
    na = []
    for pid in ALL:
        c = CHECKS.get(pid)
        if not c or not c[0]:
            na.append({"property_id": pid, "reason": "check not built yet in this revision (planned in DESIGN.md §4 %s; the TLA+ technique applies)" % pid})
            continue
        _, ref, tech, text, note = c
        checks.append({
            "property_id": pid,
            "quick_cmd": "bin/check %s --tier quick" % pid,
            "thorough_cmd": "bin/check %s --tier thorough" % pid,
            "evidence_file": "evidence/%s.json" % pid,
            "replay_cmd_template": "bin/check %s --replay {path}" % pid,
            "engine": "tlc",
            "level_claimed": {"category": "model_checking", "text": text, "design_ref": ref},
            "level_note": note,
            "technique": tech,
        })
    man = {
        "version": 1,
        "setup_cmd": "bin/setup",
        "hooks": {
            "guard": "verif",
            "enable": "go test -c -vet=off -tags verif -overlay <generated> (harness files in /verif/harness are injected as external test packages; one source hook in /repo: Client.start calls verifGate(c, \"client.start\"), defined in verif_hook.go under //go:build verif and as an empty function in verif_nohook.go otherwise)",
            "baseline_off_cmd": "cd /repo && go test -json -vet=off -count=1 -timeout 25m ./...",
            "source_commits": ["020e76f6a90f075e5ad852f7db7110eef29c6f68"],
            "add_only": True,
        },
        "engines": [
            {"name": "tlc", "path": "spec/", "serves_properties": [c["property_id"] for c in checks],
             "kind_free_text": "explicit TLA+ specification (spec/*.tla): TLC model checking of the design modules, TLC-generated behaviours replayed into the real code, TLC trace validation of NDJSON traces recorded from the real code"},
        ],
        "checks": checks,
        "not_applicable": na,
        "notes": "Exit 0 held / 1 VIOLATION / 2 inconclusive. Genuine defects: known_findings.json. Scratch data lives in a mkdtemp directory removed on exit.",
    }
    with open(os.path.join(VERIF, "MANIFEST.json"), "w") as fh:
        json.dump(man, fh, indent=1)
        fh.write("\n")


if __name__ == "__main__":
    main()
