------------------------------ MODULE GetTrace ------------------------------
(***************************************************************************)
(* Trace validation for C07.  Lines come in groups ("grp"): the members of *)
(* a group were decoded from messages that agree on the target attribute's *)
(* value, the transaction ID and - for the integrity / fingerprint         *)
(* checkers - the covered span, and differ in everything else (padding,    *)
(* neighbours, spare capacity and its content, message type).              *)
(* R: no panic; message snapshot unchanged by the call; identical outcome  *)
(*    within the group (locality).                                         *)
(* I: for well-formed values the outcome is the reference decoding.        *)
(***************************************************************************)
EXTENDS TraceBase, StunAttrs

VARIABLES l, cur     \* cur = [grp, out] of the first member of the current group

Init == RegInit /\ l = 1 /\ cur = [grp |-> -1, out |-> <<>>]

IsAddr(g) == g \in {"xor", "xoras", "mapped", "altserver", "origin", "other"}

RefOutcome(e) ==
  LET g == e.scen.g IN
  \* (RFC 5389 s15.1: the first 8 bits MUST be ignored by receivers; the library reads a 16-bit family and
  \*  refuses a non-zero first byte - an observation recorded in DESIGN.md, outside C07's statement - so the
  \*  reference outcome is only predicted for values whose first byte is 0)
  IF IsAddr(g) /\ WellFormedAddr(e.val) /\ e.val[1] = 0
  THEN LET d == IF g \in {"xor", "xoras"} THEN DecXor(e.val, e.tid) ELSE DecMapped(e.val)
       IN [r |-> "ok", ip |-> d.ip, port |-> d.port]
  ELSE IF g \in {"username", "realm", "nonce", "software"} THEN [r |-> "ok", val |-> e.val]
  ELSE IF g = "errorcode" /\ Len(e.val) >= 4 /\ e.val[3] < 8 /\ e.val[4] < 100
       THEN [r |-> "ok", code |-> DecErrorCode(e.val).code, reason |-> DecErrorCode(e.val).reason]
  ELSE IF g = "unknown" /\ Len(e.val) % 2 = 0 THEN [r |-> "ok", list |-> DecUnknown(e.val)]
  ELSE [r |-> "none"]

Step(n, e) ==
  LET out == e.out IN
  /\ Require(out.r # "panic", n, "panic", [getter |-> e.scen.g, len |-> e.scen.len, cap |-> e.scen.cap,
                                           pos |-> e.scen.pos, val |-> e.val])
  /\ Require(e.before = e.after, n, "message-changed-by-call", [getter |-> e.scen.g, len |-> e.scen.len])
  /\ IF e.grp = cur.grp
     THEN /\ Require(out = cur.out, n, "outcome-depends-on-surroundings",
                     [getter |-> e.scen.g, len |-> e.scen.len, cap |-> e.scen.cap, fill |-> e.scen.fill,
                      pos |-> e.scen.pos, first |-> cur.out, this |-> out])
          /\ UNCHANGED cur
     ELSE cur' = [grp |-> e.grp, out |-> out]
  /\ LET ref == RefOutcome(e) IN
     (ref.r # "none") => Expect(out = ref, n, "outcome-differs-from-reference",
                                [getter |-> e.scen.g, len |-> e.scen.len, got |-> out, want |-> ref])

Next == /\ l <= NLines
        /\ Step(l, Trace[l])
        /\ Consumed(l)
        /\ l' = l + 1
Spec == Init /\ [][Next]_<< l, cur >>
=============================================================================
