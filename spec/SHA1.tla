-------------------------------- MODULE SHA1 --------------------------------
(***************************************************************************)
(* SHA-1, transcribed from FIPS 180-4.  Sha1(b) maps a byte string to its  *)
(* 20-byte digest.  Words are the <<hi16, lo16>> pairs of Bytes; the word  *)
(* index t of the standard (0-based) is position t + 1 of a TLA+ sequence. *)
(*                                                                         *)
(* Everything is iterative (FoldLeft) so that the evaluation depth does    *)
(* not grow with the message length.  Helper names carry the prefix S1_.   *)
(***************************************************************************)
EXTENDS Bytes

\* s5.3.1 initial hash value H(0)
S1_H0 == << <<26437, 8961>>,      \* 67452301
            <<61389, 43913>>,     \* efcdab89
            <<39098, 56574>>,     \* 98badcfe
            <<4146, 21622>>,      \* 10325476
            <<50130, 57840>> >>   \* c3d2e1f0

\* s4.2.1 constants K_t for t in 0..19, 20..39, 40..59, 60..79
S1_K1 == <<23170, 31129>>         \* 5a827999
S1_K2 == <<28377, 60321>>         \* 6ed9eba1
S1_K3 == <<36635, 48348>>         \* 8f1bbcdc
S1_K4 == <<51810, 49622>>         \* ca62c1d6

\* s4.1.1 functions f_t (on each 16-bit half; ~x is 65535 - x)
S1_Ch(x, y, z) ==
  << (x[1] & y[1]) ^^ ((65535 - x[1]) & z[1]),
     (x[2] & y[2]) ^^ ((65535 - x[2]) & z[2]) >>
S1_Parity(x, y, z) ==
  << (x[1] ^^ y[1]) ^^ z[1], (x[2] ^^ y[2]) ^^ z[2] >>
S1_Maj(x, y, z) ==
  << ((x[1] & y[1]) ^^ (x[1] & z[1])) ^^ (y[1] & z[1]),
     ((x[2] & y[2]) ^^ (x[2] & z[2])) ^^ (y[2] & z[2]) >>

\* s2.2.2 ROTL^n for the three amounts SHA-1 uses
S1_Rotl1(x) ==
  << ((x[1] % 32768) * 2) + (x[2] \div 32768),
     ((x[2] % 32768) * 2) + (x[1] \div 32768) >>
S1_Rotl5(x) ==
  << ((x[1] % 2048) * 32) + (x[2] \div 2048),
     ((x[2] % 2048) * 32) + (x[1] \div 2048) >>
S1_Rotl30(x) ==                   \* = rotate right by 2
  << ((x[2] % 4) * 16384) + (x[1] \div 4),
     ((x[1] % 4) * 16384) + (x[2] \div 4) >>

\* sum of five words modulo 2^32 (s3.2 item 3)
S1_Add5(a, b, c, d, e) ==
  LET lo == a[2] + b[2] + c[2] + d[2] + e[2]
      hi == a[1] + b[1] + c[1] + d[1] + e[1] + (lo \div 65536)
  IN << hi % 65536, lo % 65536 >>

---------------------------------------------------------------------------
(* s5.1.1 padding: 0x80, k zero bytes, 64-bit big-endian bit length l,     *)
(* so that the total is a multiple of 64 bytes.                            *)

\* the 64-bit value 8 * n as two words (n < 2^31), without overflowing
S1_BitLen(n) == << << 0, n \div 536870912 >>,
                   << (n % 536870912) \div 8192, (n % 8192) * 8 >> >>

S1_Pad(b) ==
  LET n  == Len(b)
      k  == (119 - (n % 64)) % 64          \* n + 1 + k = 56 (mod 64)
      bl == S1_BitLen(n)
  IN b \o <<128>> \o Zeros(k) \o U32Bytes(bl[1]) \o U32Bytes(bl[2])

---------------------------------------------------------------------------
(* s6.1.2 step 1: message schedule W_0..W_79 of the block at offset off    *)

S1_From16 == [i \in 1..64 |-> 16 + i]      \* t + 1 for t in 16..79

S1_Extend(w, j) ==                         \* j = t + 1 = Len(w) + 1
  Append(w, S1_Rotl1(<< ((w[j - 3][1] ^^ w[j - 8][1]) ^^ w[j - 14][1]) ^^ w[j - 16][1],
                        ((w[j - 3][2] ^^ w[j - 8][2]) ^^ w[j - 14][2]) ^^ w[j - 16][2] >>))

S1_Schedule(p, off) ==
  FoldLeft(S1_Extend,
           << U32At(p, off),      U32At(p, off + 4),  U32At(p, off + 8),  U32At(p, off + 12),
              U32At(p, off + 16), U32At(p, off + 20), U32At(p, off + 24), U32At(p, off + 28),
              U32At(p, off + 32), U32At(p, off + 36), U32At(p, off + 40), U32At(p, off + 44),
              U32At(p, off + 48), U32At(p, off + 52), U32At(p, off + 56), U32At(p, off + 60) >>,
           S1_From16)

(* s6.1.2 step 3: one round on the working variables v = <<a, b, c, d, e>> *)
(*   T = ROTL5(a) + f_t(b, c, d) + e + K_t + W_t                           *)
(*   e = d, d = c, c = ROTL30(b), b = a, a = T                             *)
S1_Step(v, f, k, w) ==
  << S1_Add5(S1_Rotl5(v[1]), f, v[5], k, w), v[1], S1_Rotl30(v[2]), v[3], v[4] >>

S1_Round1(v, w) == S1_Step(v, S1_Ch(v[2], v[3], v[4]), S1_K1, w)      \* t in  0..19
S1_Round2(v, w) == S1_Step(v, S1_Parity(v[2], v[3], v[4]), S1_K2, w)  \* t in 20..39
S1_Round3(v, w) == S1_Step(v, S1_Maj(v[2], v[3], v[4]), S1_K3, w)     \* t in 40..59
S1_Round4(v, w) == S1_Step(v, S1_Parity(v[2], v[3], v[4]), S1_K4, w)  \* t in 60..79

(* s6.1.2 steps 1-4 for the 64-byte block of p at 0-based offset off       *)
S1_Block(h, p, off) ==
  LET w == S1_Schedule(p, off)
      v == FoldLeft(S1_Round4,
             FoldLeft(S1_Round3,
               FoldLeft(S1_Round2,
                 FoldLeft(S1_Round1, h, SubSeq(w, 1, 20)),
                 SubSeq(w, 21, 40)),
               SubSeq(w, 41, 60)),
             SubSeq(w, 61, 80))
  IN << Add32(h[1], v[1]), Add32(h[2], v[2]), Add32(h[3], v[3]),
        Add32(h[4], v[4]), Add32(h[5], v[5]) >>

---------------------------------------------------------------------------
(* Incremental form: a state is the five-word hash value.  Sha1Blocks      *)
(* absorbs a byte string whose length is a multiple of 64.                 *)

Sha1State0 == S1_H0

Sha1Blocks(h, p) ==
  FoldLeft(LAMBDA hh, off : S1_Block(hh, p, off), h,
           [i \in 1..(Len(p) \div 64) |-> 64 * (i - 1)])

Sha1Digest(h) ==
  U32Bytes(h[1]) \o U32Bytes(h[2]) \o U32Bytes(h[3]) \o U32Bytes(h[4]) \o U32Bytes(h[5])

\* s6.1: the SHA-1 message digest of the byte string b
Sha1(b) == Sha1Digest(Sha1Blocks(S1_H0, S1_Pad(b)))

=============================================================================
