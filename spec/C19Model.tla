------------------------------ MODULE C19Model ------------------------------
(* Design-level check of the figure-3 layout over the complete domain:     *)
(* one TLC state per (method, class) pair and per 16-bit wire value.       *)
EXTENDS StunType
VARIABLE x
Init == \/ \E m \in Methods, c \in Classes : x = [k |-> "mc", m |-> m, c |-> c, v |-> 0]
        \/ \E v \in 0..65535 : x = [k |-> "v", m |-> 0, c |-> 0, v |-> v]
Next == UNCHANGED x
Spec == Init /\ [][Next]_x
Inv ==
  IF x.k = "mc"
  THEN /\ ReadType(TypeValue(x.m, x.c)) = << x.m, x.c >>
       /\ TypeValue(x.m, x.c) < 16384
  ELSE /\ TypeValue(ReadMethod(x.v), ReadClass(x.v)) = x.v % 16384
       /\ ReadMethod(x.v) \in Methods /\ ReadClass(x.v) \in Classes
=============================================================================
