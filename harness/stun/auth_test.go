//go:build verif

package stun_test

import (
	"bufio"
	"crypto/hmac"
	"crypto/sha1"
	"encoding/json"
	"hash/crc32"
	"math/rand"
	"os"
	"sync"
	"testing"

	"github.com/pion/stun/v3"
)

// ---- C04 / C05 driver: records what the library's MESSAGE-INTEGRITY and FINGERPRINT code does -------------

type authShape struct {
	Before []int  `json:"before"`
	Mac    string `json:"mac"`
	After  []int  `json:"after"`
	Tail   string `json:"tail"`
	Key    int    `json:"key"`
	Done   bool   `json:"done"`
}

func b01(ok bool) int {
	if ok {
		return 1
	}
	return 0
}

func randBytes(r *rand.Rand, n int) []byte {
	b := make([]byte, n)
	for i := range b {
		b[i] = byte(r.Intn(256))
	}
	return b
}

func attrBytes(t uint16, v []byte) []byte {
	out := []byte{byte(t >> 8), byte(t), byte(len(v) >> 8), byte(len(v))}
	out = append(out, v...)
	for len(out)%4 != 0 {
		out = append(out, 0)
	}
	return out
}

func setLen(b []byte) []byte {
	n := len(b) - 20
	b[2], b[3] = byte(n>>8), byte(n)
	return b
}

// decodeCopy decodes a private copy of raw (capacity = length + spare).
func decodeCopy(raw []byte, spare int) (*stun.Message, bool) {
	buf := make([]byte, len(raw), len(raw)+spare)
	copy(buf, raw)
	m := &stun.Message{Raw: buf}
	if err := m.Decode(); err != nil {
		return m, false
	}
	return m, true
}

func checkVerdict(c stun.Checker, m *stun.Message) (v int) {
	defer func() {
		if r := recover(); r != nil {
			v = -1 // panic: neither nil nor error
		}
	}()
	return b01(c.Check(m) == nil)
}

func flipBit(raw []byte, bit int) []byte {
	v := append([]byte(nil), raw...)
	v[bit/8] ^= 1 << uint(7-bit%8)
	return v
}

func macVariant(mac []byte, kind string) []byte {
	m := append([]byte(nil), mac...)
	switch kind {
	case "ok":
	case "len0":
		m = m[:0]
	case "len4":
		m = m[:4]
	case "len19":
		m = m[:19]
	case "len21":
		m = append(m, 0)
	case "len40":
		m = append(m, mac...)
	case "first":
		m[0]++
	case "last":
		m[19]++
	case "prefix4":
		for i := 4; i < 20; i++ {
			m[i] = 0
		}
	case "prefix19":
		m[19]++
	}
	return m
}

func shapeKey(r *rand.Rand, class int) []byte { return randBytes(r, class) }

// emitMIShape signs with the library, then assembles the shape's message around the MAC and records Check verdicts.
func emitMIShape(tw *traceWriter, r *rand.Rand, s authShape) {
	key := shapeKey(r, s.Key)
	m := new(stun.Message)
	setters := []stun.Setter{stun.NewType(stun.Method(r.Intn(4096)), stun.MessageClass(r.Intn(4))), stun.TransactionID}
	for _, n := range s.Before {
		setters = append(setters, stun.RawAttribute{Type: stun.AttrType(0x0006 + r.Intn(3)*0x000e), Value: randBytes(r, n)})
	}
	if err := m.Build(setters...); err != nil {
		panic(err)
	}
	pre := append([]byte(nil), m.Raw...)
	keyRec := ints(key) // the key as the caller supplied it (recorded before any library call)
	err := stun.MessageIntegrity(key).AddTo(m)
	post := append([]byte(nil), m.Raw...)
	tw.emit(map[string]interface{}{"k": "miadd", "pre": ints(pre), "post": ints(post), "key": keyRec, "err": b01(err == nil)})
	if err != nil || len(post) != len(pre)+24 {
		return
	}
	mac := post[len(post)-20:]
	raw := append([]byte(nil), pre...)
	raw = append(raw, attrBytes(0x0008, macVariant(mac, s.Mac))...)
	for _, n := range s.After {
		raw = append(raw, attrBytes(uint16(0x8022+r.Intn(2)), randBytes(r, n))...)
	}
	switch s.Tail {
	case "mi2":
		raw = append(raw, attrBytes(0x0008, randBytes(r, 20))...)
	}
	setLen(raw)
	if s.Tail == "fp" {
		// let the library add the fingerprint to the assembled message
		fm, ok := decodeCopy(raw, 64)
		if ok {
			if err := stun.Fingerprint.AddTo(fm); err == nil {
				raw = append([]byte(nil), fm.Raw...)
			}
		}
	}
	other := randBytes(r, 1+r.Intn(40))
	onebit := append([]byte(nil), key...)
	if len(onebit) > 0 {
		onebit[r.Intn(len(onebit))] ^= 1 << uint(r.Intn(8))
	} else {
		onebit = []byte{0} // HMAC pads the key with zeros: same MAC as the empty key
	}
	dm, ok := decodeCopy(raw, []int{0, 3, 19, 20, 64}[r.Intn(5)])
	keys := [][]interface{}{}
	if ok {
		for i, k := range [][]byte{key, other, onebit} {
			rec := ints(k)
			if i == 0 {
				rec = keyRec
			}
			keys = append(keys, []interface{}{rec, checkVerdict(stun.MessageIntegrity(k), dm)})
		}
	}
	tw.emit(map[string]interface{}{"k": "michk", "raw": ints(raw), "dec": b01(ok), "keys": keys, "shape": s})
	if s.Mac != "ok" || s.Tail == "fp" {
		return
	}
	// near misses: the MAC an implementation would produce/accept if it covered a slightly different span or
	// rewrote the length differently (RFC 5389 s15.4 names exactly one). All of them must be rejected
	// unless they coincide with the right one.
	macAt := len(pre)
	for variant := 0; variant < 4; variant++ {
		v := append([]byte(nil), raw...)
		text := append([]byte(nil), v[:macAt]...)
		switch variant {
		case 0: // header length left as in the final message
		case 1: // header length = bytes before MESSAGE-INTEGRITY (attribute itself not counted)
			n := macAt - 20
			text[2], text[3] = byte(n>>8), byte(n)
		case 2: // length rewritten correctly but the attribute header included in the text
			n := macAt + 24 - 20
			text[2], text[3] = byte(n>>8), byte(n)
			text = append(text, v[macAt:macAt+4]...)
		case 3: // the whole message with the MAC field zeroed
			text = append([]byte(nil), v...)
			for i := macAt + 4; i < macAt+24; i++ {
				text[i] = 0
			}
		}
		h := hmac.New(sha1.New, key)
		h.Write(text)
		copy(v[macAt+4:macAt+24], h.Sum(nil))
		dm2, ok2 := decodeCopy(v, 24)
		keys2 := [][]interface{}{}
		if ok2 {
			keys2 = append(keys2, []interface{}{keyRec, checkVerdict(stun.MessageIntegrity(key), dm2)})
		}
		tw.emit(map[string]interface{}{"k": "michk", "raw": ints(v), "dec": b01(ok2), "keys": keys2, "nearmiss": variant})
	}
}

func signedMessage(r *rand.Rand, withFP bool) ([]byte, []byte) {
	key := randBytes(r, []int{0, 1, 16, 20, 64, 65, 100}[r.Intn(7)])
	m := new(stun.Message)
	setters := []stun.Setter{stun.NewType(stun.Method(r.Intn(4096)), stun.MessageClass(r.Intn(4))), stun.TransactionID}
	for i, n := 0, r.Intn(4); i < n; i++ {
		setters = append(setters, stun.RawAttribute{Type: stun.AttrType(1 + r.Intn(0x30)), Value: randBytes(r, r.Intn(14))})
	}
	setters = append(setters, stun.MessageIntegrity(key))
	if withFP {
		setters = append(setters, stun.Fingerprint)
	} else if r.Intn(2) == 0 {
		setters = append(setters, stun.RawAttribute{Type: stun.AttrSoftware, Value: randBytes(r, r.Intn(9))})
	}
	if err := m.Build(setters...); err != nil {
		panic(err)
	}
	return append([]byte(nil), m.Raw...), key
}

func TestVerifAuth(t *testing.T) {
	tw := newTrace(t)
	defer tw.close()
	mode := os.Getenv("VERIF_MODE")
	r := newRand(4)

	if p := os.Getenv("VERIF_VECTORS"); p != "" && mode == "C04" {
		f, err := os.Open(p)
		if err != nil {
			t.Fatal(err)
		}
		sc := bufio.NewScanner(f)
		sc.Buffer(make([]byte, 1<<20), 1<<26)
		for sc.Scan() {
			var s authShape
			if err := json.Unmarshal(sc.Bytes(), &s); err != nil {
				t.Fatal(err)
			}
			emitMIShape(tw, r, s)
		}
		f.Close()
	}
	if p := os.Getenv("VERIF_REPLAY_LINES"); p != "" {
		// replay: re-execute recorded inputs (lines of the kinds below, only their input fields are used)
		f, err := os.Open(p)
		if err != nil {
			t.Fatal(err)
		}
		sc := bufio.NewScanner(f)
		sc.Buffer(make([]byte, 1<<20), 1<<26)
		for sc.Scan() {
			replayAuthLine(tw, sc.Bytes())
		}
		f.Close()
		return
	}

	concurrentAuth(tw, mode)
	lengthSweep(tw, r, mode)
	if mode == "C04" {
		// signing refused once FINGERPRINT is present (message must stay unchanged)
		for i := 0; i < envInt("VERIF_N_REFUSE", 20); i++ {
			m := new(stun.Message)
			if err := m.Build(stun.BindingRequest, stun.TransactionID, stun.RawAttribute{Type: stun.AttrUsername, Value: randBytes(r, r.Intn(9))}, stun.Fingerprint); err != nil {
				t.Fatal(err)
			}
			if i%2 == 1 {
				m.Add(stun.AttrSoftware, randBytes(r, r.Intn(9)))
			}
			key := randBytes(r, r.Intn(30))
			pre := append([]byte(nil), m.Raw...)
			err := stun.MessageIntegrity(key).AddTo(m)
			tw.emit(map[string]interface{}{"k": "miadd", "pre": ints(pre), "post": ints(m.Raw), "key": ints(key), "err": b01(err == nil)})
		}
		// long-term keys
		for i := 0; i < envInt("VERIF_N_LTKEY", 30); i++ {
			u, re, p := randASCII(r, r.Intn(20)), randASCII(r, r.Intn(20)), randASCII(r, r.Intn(70))
			k := stun.NewLongTermIntegrity(u, re, p)
			tw.emit(map[string]interface{}{"k": "ltkey", "user": ints([]byte(u)), "realm": ints([]byte(re)), "pass": ints([]byte(p)), "key": ints(k)})
			// and a message signed with it verifies (validated as an ordinary michk line)
			m := new(stun.Message)
			if err := m.Build(stun.BindingRequest, stun.TransactionID, stun.NewUsername(u), stun.NewRealm(re), k); err != nil {
				t.Fatal(err)
			}
			dm, ok := decodeCopy(m.Raw, 32)
			tw.emit(map[string]interface{}{"k": "michk", "raw": ints(m.Raw), "dec": b01(ok),
				"keys": [][]interface{}{{ints(k), checkVerdict(k, dm)}}})
		}
		// exhaustive single-bit sweeps of signed messages
		for i := 0; i < envInt("VERIF_N_SWEEP", 6); i++ {
			raw, key := signedMessage(r, i%2 == 0)
			flips := [][3]int{}
			for bit := 0; bit < len(raw)*8; bit++ {
				v := flipBit(raw, bit)
				dm, ok := decodeCopy(v, 24)
				chk := 0
				if ok {
					chk = checkVerdict(stun.MessageIntegrity(key), dm)
				}
				flips = append(flips, [3]int{bit, b01(ok), chk})
			}
			// split into chunks so that TLC shards share the HMAC work
			for c := 0; c < len(flips); c += 64 {
				e := c + 64
				if e > len(flips) {
					e = len(flips)
				}
				tw.emit(map[string]interface{}{"k": "miflip", "raw": ints(raw), "key": ints(key), "flips": flips[c:e]})
			}
		}
		return
	}

	// ---- C05 ----
	// (a) the fingerprint setter, with and without MESSAGE-INTEGRITY before it; (b) exhaustive bit flips and bursts
	nmsg := envInt("VERIF_N_FP", 12)
	for i := 0; i < nmsg; i++ {
		m := new(stun.Message)
		setters := []stun.Setter{stun.NewType(stun.Method(r.Intn(4096)), stun.MessageClass(r.Intn(4))), stun.TransactionID}
		for j, n := 0, r.Intn(4); j < n; j++ {
			setters = append(setters, stun.RawAttribute{Type: stun.AttrType(1 + r.Intn(0x30)), Value: randBytes(r, r.Intn(14))})
		}
		if i%2 == 0 {
			setters = append(setters, stun.MessageIntegrity(randBytes(r, 16)))
		}
		if err := m.Build(setters...); err != nil {
			t.Fatal(err)
		}
		pre := append([]byte(nil), m.Raw...)
		if err := stun.Fingerprint.AddTo(m); err != nil {
			t.Fatal(err)
		}
		raw := append([]byte(nil), m.Raw...)
		dm, _ := decodeCopy(raw, 0)
		tw.emit(map[string]interface{}{"k": "fpadd", "pre": ints(pre), "post": ints(raw), "chk": checkVerdict(stun.Fingerprint, dm)})
		// other read-only operations on the same Message must not disturb the fingerprint check: a failed and a
		// successful integrity check, getters, a second fingerprint check
		dm2, ok2 := decodeCopy(raw, []int{0, 24}[i%2])
		if ok2 {
			_ = checkVerdict(stun.MessageIntegrity(randBytes(r, 9)), dm2)
			var sw stun.Software
			_ = sw.GetFrom(dm2)
			_ = checkVerdict(stun.Fingerprint, dm2)
			tw.emit(map[string]interface{}{"k": "fpchk", "raw": ints(raw), "dec": 1, "chk": checkVerdict(stun.Fingerprint, dm2), "after": "failed-integrity-check"})
			tw.emit(map[string]interface{}{"k": "fpchk", "raw": ints(dm2.Raw), "dec": 1, "chk": checkVerdict(stun.Fingerprint, dm2), "after": "bytes-as-they-are-now"})
		}
		flips := [][3]int{}
		for bit := 0; bit < len(raw)*8; bit++ {
			v := flipBit(raw, bit)
			dm, ok := decodeCopy(v, 0)
			chk := 0
			if ok {
				chk = checkVerdict(stun.Fingerprint, dm)
			}
			flips = append(flips, [3]int{bit, b01(ok), chk})
		}
		bursts := [][]interface{}{}
		for j := 0; j < envInt("VERIF_N_BURST", 40); j++ {
			n := 2 + r.Intn(31)
			start := r.Intn(len(raw)*8 - n)
			pat := make([]int, n)
			pat[0], pat[n-1] = 1, 1
			for k := 1; k < n-1; k++ {
				pat[k] = r.Intn(2)
			}
			v := append([]byte(nil), raw...)
			for k, p := range pat {
				if p == 1 {
					v = flipBit(v, start+k)
				}
			}
			dm, ok := decodeCopy(v, 0)
			chk := 0
			if ok {
				chk = checkVerdict(stun.Fingerprint, dm)
			}
			bursts = append(bursts, []interface{}{start, pat, b01(ok), chk})
		}
		for c := 0; c < len(flips); c += 128 {
			e := c + 128
			if e > len(flips) {
				e = len(flips)
			}
			bs := [][]interface{}{}
			if c == 0 {
				bs = bursts
			}
			tw.emit(map[string]interface{}{"k": "fpflip", "raw": ints(raw), "flips": flips[c:e], "bursts": bs})
		}
	}
	// (c) arbitrary decodable messages containing FINGERPRINT attributes of any length and position
	for i := 0; i < envInt("VERIF_N_FPANY", 300); i++ {
		raw := make([]byte, 20)
		copy(raw, []byte{0, 1, 0, 0, 0x21, 0x12, 0xA4, 0x42})
		copy(raw[8:], randBytes(r, 12))
		na := 1 + r.Intn(4)
		fpAt := r.Intn(na)
		for j := 0; j < na; j++ {
			if j == fpAt || r.Intn(4) == 0 {
				raw = append(raw, attrBytes(0x8028, randBytes(r, []int{0, 1, 3, 4, 4, 4, 5, 8}[r.Intn(8)]))...)
			} else {
				raw = append(raw, attrBytes(uint16(1+r.Intn(0x30)), randBytes(r, r.Intn(10)))...)
			}
		}
		setLen(raw)
		// near misses: give the first 4-byte FINGERPRINT the CRC of each span an implementation might
		// plausibly cover (only one of them is the span the property names)
		fpStart := -1
		for p := 20; p+4 <= len(raw); {
			l := int(raw[p+2])<<8 | int(raw[p+3])
			if raw[p] == 0x80 && raw[p+1] == 0x28 && l == 4 {
				fpStart = p
				break
			}
			p += 4 + (l+3)/4*4
		}
		put := func(fv uint32) {
			raw[fpStart+4], raw[fpStart+5], raw[fpStart+6], raw[fpStart+7] = byte(fv>>24), byte(fv>>16), byte(fv>>8), byte(fv)
		}
		trailing := false
		switch r.Intn(6) {
		case 0: // everything before the last 8 raw bytes
			if fpStart >= 0 && len(raw) >= 28 {
				put(stun.FingerprintValue(raw[:len(raw)-8]))
			}
		case 1: // everything before the attribute itself, header length as it is
			if fpStart >= 0 {
				put(stun.FingerprintValue(raw[:fpStart]))
			}
		case 2: // everything before the attribute, header length rewritten to end at the attribute
			if fpStart >= 0 {
				tmp := append([]byte(nil), raw[:fpStart]...)
				n := fpStart + 8 - 20
				tmp[2], tmp[3] = byte(n>>8), byte(n)
				put(stun.FingerprintValue(tmp))
			}
		case 3: // a correctly fingerprinted message followed by bytes after the declared length
			if fpStart >= 0 && fpStart+8 == len(raw) {
				put(stun.FingerprintValue(raw[:fpStart]))
				trailing = true
			}
		case 4:
			trailing = true
		}
		if trailing {
			raw = append(raw, randBytes(r, 1+r.Intn(9))...)
		}
		dm, ok := decodeCopy(raw, r.Intn(3)*8)
		chk := 0
		if ok {
			chk = checkVerdict(stun.Fingerprint, dm)
		}
		tw.emit(map[string]interface{}{"k": "fpchk", "raw": ints(raw), "dec": b01(ok), "chk": chk})
	}
}

func randASCII(r *rand.Rand, n int) string {
	b := make([]byte, n)
	for i := range b {
		b[i] = byte(33 + r.Intn(90))
	}
	return string(b)
}

// replayAuthLine re-executes the library calls behind one recorded line.
func replayAuthLine(tw *traceWriter, line []byte) {
	var e struct {
		K     string          `json:"k"`
		Pre   []int           `json:"pre"`
		Raw   []int           `json:"raw"`
		Key   []int           `json:"key"`
		Keys  [][]interface{} `json:"keys"`
		Flips [][3]int        `json:"flips"`
		User  []int           `json:"user"`
		Realm []int           `json:"realm"`
		Pass  []int           `json:"pass"`
	}
	if err := json.Unmarshal(line, &e); err != nil {
		panic(err)
	}
	switch e.K {
	case "miadd", "fpadd":
		m, ok := decodeCopy(unints(e.Pre), 64)
		if !ok {
			return
		}
		if e.K == "miadd" {
			err := stun.MessageIntegrity(unints(e.Key)).AddTo(m)
			tw.emit(map[string]interface{}{"k": "miadd", "pre": e.Pre, "post": ints(m.Raw), "key": e.Key, "err": b01(err == nil)})
		} else {
			_ = stun.Fingerprint.AddTo(m)
			dm, _ := decodeCopy(m.Raw, 0)
			tw.emit(map[string]interface{}{"k": "fpadd", "pre": e.Pre, "post": ints(m.Raw), "chk": checkVerdict(stun.Fingerprint, dm)})
		}
	case "michk":
		raw := unints(e.Raw)
		dm, ok := decodeCopy(raw, 0)
		keys := [][]interface{}{}
		for _, kv := range e.Keys {
			var k []byte
			for _, x := range kv[0].([]interface{}) {
				k = append(k, byte(x.(float64)))
			}
			v := 0
			if ok {
				v = checkVerdict(stun.MessageIntegrity(k), dm)
			}
			keys = append(keys, []interface{}{ints(k), v})
		}
		tw.emit(map[string]interface{}{"k": "michk", "raw": e.Raw, "dec": b01(ok), "keys": keys})
	case "miflip", "fpflip":
		raw := unints(e.Raw)
		flips := [][3]int{}
		for _, f := range e.Flips {
			dm, ok := decodeCopy(flipBit(raw, f[0]), 0)
			chk := 0
			if ok {
				if e.K == "miflip" {
					chk = checkVerdict(stun.MessageIntegrity(unints(e.Key)), dm)
				} else {
					chk = checkVerdict(stun.Fingerprint, dm)
				}
			}
			flips = append(flips, [3]int{f[0], b01(ok), chk})
		}
		if e.K == "miflip" {
			tw.emit(map[string]interface{}{"k": "miflip", "raw": e.Raw, "key": e.Key, "flips": flips})
		} else {
			tw.emit(map[string]interface{}{"k": "fpflip", "raw": e.Raw, "flips": flips, "bursts": []int{}})
		}
	case "fpchk":
		dm, ok := decodeCopy(unints(e.Raw), 0)
		chk := 0
		if ok {
			chk = checkVerdict(stun.Fingerprint, dm)
		}
		tw.emit(map[string]interface{}{"k": "fpchk", "raw": e.Raw, "dec": b01(ok), "chk": chk})
	case "ltkey":
		k := stun.NewLongTermIntegrity(string(unints(e.User)), string(unints(e.Realm)), string(unints(e.Pass)))
		tw.emit(map[string]interface{}{"k": "ltkey", "user": e.User, "realm": e.Realm, "pass": e.Pass, "key": ints(k)})
	}
}

// concurrentAuth: several goroutines sign / fingerprint messages of their own at the same time (no Message is
// shared). Recorded for the validator: every VERIF_CONC_EVERY-th message of each goroutine, and every message that the
// library's own check does not accept right after the setter (the reference codec in TLC decides about it).
func concurrentAuth(tw *traceWriter, mode string) {
	const workers = 8
	iters := envInt("VERIF_CONC_ITERS", 20000)
	every := envInt("VERIF_CONC_EVERY", 4000)
	var wg sync.WaitGroup
	gate := make(chan struct{})
	for g := 0; g < workers; g++ {
		wg.Add(1)
		go func(g int) {
			defer wg.Done()
			r := rand.New(rand.NewSource(seed()*131 + int64(g)))
			key := randBytes(r, []int{16, 20, 64, 65, 100, 3, 0, 32}[g])
			failures := 0
			m := new(stun.Message)
			<-gate
			for i := 0; i < iters; i++ {
				m.Reset()
				setters := []stun.Setter{stun.NewType(stun.Method(r.Intn(4096)), stun.MessageClass(r.Intn(4))), stun.TransactionID}
				for j, n := 0, r.Intn(3); j < n; j++ {
					setters = append(setters, stun.RawAttribute{Type: stun.AttrType(1 + r.Intn(0x30)), Value: randBytes(r, r.Intn(14))})
				}
				if err := m.Build(setters...); err != nil {
					panic(err)
				}
				pre := append([]byte(nil), m.Raw...)
				if mode == "C04" {
					err := stun.MessageIntegrity(key).AddTo(m)
					post := append([]byte(nil), m.Raw...)
					dm, ok := decodeCopy(post, 24)
					v := 0
					if ok {
						v = checkVerdict(stun.MessageIntegrity(key), dm)
					}
					if i%every == g || ((err != nil || !ok || v != 1) && failures < 10) {
						if v != 1 {
							failures++
						}
						tw.emit(map[string]interface{}{"k": "miadd", "pre": ints(pre), "post": ints(post), "key": ints(key), "err": b01(err == nil), "concurrent": g})
						tw.emit(map[string]interface{}{"k": "michk", "raw": ints(post), "dec": b01(ok), "keys": [][]interface{}{{ints(key), v}}, "concurrent": g})
					}
					continue
				}
				if g%2 == 0 {
					if err := stun.MessageIntegrity(key).AddTo(m); err != nil {
						panic(err)
					}
					pre = append(pre[:0], m.Raw...)
				}
				err := stun.Fingerprint.AddTo(m)
				post := append([]byte(nil), m.Raw...)
				dm, ok := decodeCopy(post, 0)
				v := 0
				if ok {
					v = checkVerdict(stun.Fingerprint, dm)
				}
				if i%every == g || ((err != nil || !ok || v != 1) && failures < 10) {
					if v != 1 {
						failures++
					}
					tw.emit(map[string]interface{}{"k": "fpadd", "pre": ints(pre), "post": ints(post), "chk": v, "concurrent": g})
				}
			}
		}(g)
	}
	close(gate)
	wg.Wait()
}

// lengthSweep signs / fingerprints messages whose body length lies on both sides of every multiple of 256 up to
// VERIF_N_LENSWEEP*256 (the two header-length bytes carry there) and, in the thorough tier, at every multiple of 4 in
// between. The setters and the checkers all rewrite the header length around the MAC / CRC computation.
func lengthSweep(tw *traceWriter, r *rand.Rand, mode string) {
	nb := envInt("VERIF_N_LENSWEEP", 4)
	all := os.Getenv("VERIF_LENSWEEP_ALL") == "1"
	for body := 0; body <= nb*256+16; body += 4 {
		d := body % 256
		if !all && !(d >= 224 || d <= 16) {
			continue
		}
		m := new(stun.Message)
		setters := []stun.Setter{stun.NewType(stun.Method(r.Intn(4096)), stun.MessageClass(r.Intn(4))), stun.TransactionID}
		// one or two attributes filling exactly `body` bytes (the last value may be unpadded by up to 3 bytes)
		rest := body
		if rest >= 16 && r.Intn(2) == 0 {
			n := 4 * (1 + r.Intn(rest/4-2))
			setters = append(setters, stun.RawAttribute{Type: stun.AttrType(1 + r.Intn(0x30)), Value: randBytes(r, n-4)})
			rest -= n
		}
		if rest >= 4 {
			unpad := 0
			if rest >= 8 {
				unpad = r.Intn(4)
			}
			setters = append(setters, stun.RawAttribute{Type: stun.AttrType(1 + r.Intn(0x30)), Value: randBytes(r, rest-4-unpad)})
		}
		if err := m.Build(setters...); err != nil {
			panic(err)
		}
		if len(m.Raw) != 20+body {
			panic("lengthSweep: body length")
		}
		pre := append([]byte(nil), m.Raw...)
		key := randBytes(r, []int{1, 16, 20, 64, 65}[r.Intn(5)])
		if mode == "C04" {
			err := stun.MessageIntegrity(key).AddTo(m)
			signed := append([]byte(nil), m.Raw...)
			tw.emit(map[string]interface{}{"k": "miadd", "pre": ints(pre), "post": ints(signed), "key": ints(key), "err": b01(err == nil)})
			// checked as it is, and with attributes after the MAC (the checker rewinds the header length)
			dm, ok := decodeCopy(signed, 0)
			tw.emit(map[string]interface{}{"k": "michk", "raw": ints(signed), "dec": b01(ok),
				"keys": [][]interface{}{{ints(key), checkVerdict(stun.MessageIntegrity(key), dm)}}})
			m.Add(stun.AttrSoftware, randBytes(r, r.Intn(9)))
			if r.Intn(2) == 0 {
				_ = stun.Fingerprint.AddTo(m)
			}
			tail := append([]byte(nil), m.Raw...)
			dm, ok = decodeCopy(tail, 24)
			tw.emit(map[string]interface{}{"k": "michk", "raw": ints(tail), "dec": b01(ok),
				"keys": [][]interface{}{{ints(key), checkVerdict(stun.MessageIntegrity(key), dm)}}})
			continue
		}
		if body%8 == 4 {
			_ = stun.MessageIntegrity(key).AddTo(m)
			pre = append([]byte(nil), m.Raw...)
		}
		if err := stun.Fingerprint.AddTo(m); err != nil {
			panic(err)
		}
		raw := append([]byte(nil), m.Raw...)
		dm, _ := decodeCopy(raw, 0)
		tw.emit(map[string]interface{}{"k": "fpadd", "pre": ints(pre), "post": ints(raw), "chk": checkVerdict(stun.Fingerprint, dm)})
		// a fingerprint written by the reference (CRC-32 of everything before the attribute, length already counting it)
		ref := append(append([]byte(nil), pre...), 0x80, 0x28, 0, 4, 0, 0, 0, 0)
		setLen(ref)
		v := crc32.ChecksumIEEE(ref[:len(ref)-8]) ^ 0x5354554e
		ref[len(ref)-4], ref[len(ref)-3], ref[len(ref)-2], ref[len(ref)-1] = byte(v>>24), byte(v>>16), byte(v>>8), byte(v)
		dm, ok := decodeCopy(ref, 0)
		chk := 0
		if ok {
			chk = checkVerdict(stun.Fingerprint, dm)
		}
		tw.emit(map[string]interface{}{"k": "fpchk", "raw": ints(ref), "dec": b01(ok), "chk": chk})
	}
}
