SPECIFICATION Spec
INVARIANT DesignMeetsRequirement
INVARIANT Export
CHECK_DEADLOCK FALSE
