"""C16 - ParseURI terminates safely on every string."""
import json
import vlib

SIGMA = ["a", "1", ":", "[", "]", "?", "=", "&", "/", "#", ".", "-", "+", "@", "%"]


def run(ctx):
    rin = ctx.replay_input()
    env = {}
    L = 3 if ctx.quick() else 4
    if rin is not None:
        p = ctx.path("replay_strings.json")
        with open(p, "w") as fh:
            json.dump(rin["strings"], fh)
        env["VERIF_REPLAY_STRINGS"] = p
    else:
        ctx.tlc_model("UriImpl", "UriImpl_L%d.cfg" % (L + 1), workers=vlib.NCPU, heap_gb=12, timeout=3000,
                      name="UriImpl: every abstract string <= %d symbols x 5 schemes, bounded retry + termination (liveness)" % (L + 1))
        env.update({"VERIF_SIGMA": json.dumps(SIGMA), "VERIF_MAXLEN": L, "VERIF_SWEEPLEN": 4 if ctx.quick() else 5,
                    "VERIF_RANDOM": 20000 if ctx.quick() else 400000, "VERIF_LONG": 12 if ctx.quick() else 60})
    h = ctx.harness("stun")
    trace = ctx.path("c16.ndjson")
    ctx.drive(h, "TestVerifC16", env=dict(env, VERIF_TRACE_OUT=trace), timeout=2400)
    files = ctx.shard(trace, vlib.NCPU * 2)
    ctx.validate("UriTrace16", files, heap_gb=3, timeout=1800)
    ctx.add_samples(trace, 3, maxlen=500)
    nuri = nbatch = swept = 0
    with open(trace) as fh:
        for ln in fh:
            e = json.loads(ln)
            if e["k"] == "uri":
                nuri += 1
            else:
                nbatch += 1
                swept += e["count"]

    def input_of(rj):
        tl = rj["trace_line"]
        if tl["k"] == "uri":
            return {"strings": [tl["in"]]}
        return {"strings": [b["s"] for b in tl["bad"] if "..." not in b["s"]][:50]}
    ctx.input_of = input_of
    ctx.extra.update({"inputs_with_prediction": nuri, "inputs_swept": swept, "batches": nbatch})
    ctx.assumptions += ["UriImpl transcribes ParseURI, net.SplitHostPort and the opaque/query split of net/url.Parse over an abstract alphabet (conformance is checked on every enumerated string; disagreement is drift)",
                        "a dead or hung worker process identifies its input by the begin marker it wrote"]
    return vlib.finish(ctx, traces_validated=nuri + nbatch,
                       rule="every abstract string over the 15-symbol alphabet up to the bound after 5 scheme prefixes (2 concrete representatives each) with UriImpl prediction; native sweep of all strings over a 20-symbol alphabet up to length 4/5 after 4 prefixes; random, mutated, non-ASCII and 1e5..1e6-byte inputs; all in isolated worker processes")
