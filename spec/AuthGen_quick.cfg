SPECIFICATION Spec
CONSTANTS
  MaxBefore = 1
  MaxAfter = 1
  CheckTheorems = TRUE
INVARIANT Theorems
INVARIANT Export
CHECK_DEADLOCK FALSE
