------------------------------ MODULE HmacPool ------------------------------
(***************************************************************************)
(* The pooled HMAC object of internal/hmac (hmac.go, pool.go), shaped like *)
(* the implementation: an object keeps key pads, an inner hash that has    *)
(* absorbed the inner pad and the data, and - after the first Reset - the  *)
(* marshaled inner/outer hash states that later Reset/Sum calls restore    *)
(* instead of re-hashing the pads.  Acquire re-keys a pooled object        *)
(* (resetTo) or makes a new one.  Digests are abstract: the digest of an   *)
(* object is the triple (key absorbed by the inner hash, data absorbed,    *)
(* key used for the outer hash); RFC 2104 demands (k, data, k) for the     *)
(* key of the current acquisition and the data since the last reset.       *)
(***************************************************************************)
EXTENDS Integers, Sequences, FiniteSets

CONSTANTS Keys, Objs, Chunks, MaxData, NoKey

VARIABLES obj,    \* obj[o] = [held, pad, marshaled, cache, inKey, inData, curKey, want]
          act     \* label of the last step (output only)

vars == << obj, act >>
View == obj

Fresh == [held |-> FALSE, pad |-> NoKey, marshaled |-> FALSE, cache |-> NoKey,
          inKey |-> NoKey, inData |-> <<>>, curKey |-> NoKey, want |-> <<>>, made |-> FALSE]

Init == obj = [o \in Objs |-> Fresh] /\ act = [op |-> "init"]

\* AcquireSHAx(key): take any pooled object (or make one) and re-key it - pool.go resetTo
Acquire(o, k) ==
  /\ ~obj[o].held
  /\ obj' = [obj EXCEPT ![o] = [@ EXCEPT !.held = TRUE, !.made = TRUE, !.pad = k, !.marshaled = FALSE,
                                         !.inKey = k, !.inData = <<>>, !.curKey = k, !.want = <<>>]]
  /\ act' = [op |-> "acquire", o |-> o, k |-> k]

Write(o, c) ==
  /\ obj[o].held /\ Len(obj[o].inData) < MaxData
  /\ obj' = [obj EXCEPT ![o] = [@ EXCEPT !.inData = Append(@, c), !.want = Append(@, c)]]
  /\ act' = [op |-> "write", o |-> o, c |-> c]

\* key used for the outer hash by Sum: the marshaled outer state if there is one, else the outer pad
OuterKey(s) == IF s.marshaled THEN s.cache ELSE s.pad
Digest(s) == << s.inKey, s.inData, OuterKey(s) >>
Wanted(s) == << s.curKey, s.want, s.curKey >>

Sum(o) ==
  /\ obj[o].held
  /\ UNCHANGED obj
  /\ act' = [op |-> "sum", o |-> o]

\* hmac.go Reset: restore the marshaled inner state, or re-hash the inner pad and marshal both states
Reset(o) ==
  /\ obj[o].held
  /\ LET s == obj[o] IN
     obj' = [obj EXCEPT ![o] =
               IF s.marshaled
               THEN [s EXCEPT !.inKey = s.cache, !.inData = <<>>, !.want = <<>>]
               ELSE [s EXCEPT !.inKey = s.pad, !.inData = <<>>, !.want = <<>>, !.cache = s.pad, !.marshaled = TRUE]]
  /\ act' = [op |-> "reset", o |-> o]

Put(o) ==
  /\ obj[o].held
  /\ obj' = [obj EXCEPT ![o] = [@ EXCEPT !.held = FALSE]]
  /\ act' = [op |-> "put", o |-> o]

Next == \E o \in Objs :
          \/ \E k \in Keys : Acquire(o, k)
          \/ \E c \in Chunks : Write(o, c)
          \/ Sum(o) \/ Reset(o) \/ Put(o)

Spec == Init /\ [][Next]_vars

\* RFC 2104 at design level: whatever the object served before, a held object's digest is that of
\* (current key, data since the last reset)
SumIsHmac == \A o \in Objs : obj[o].held => Digest(obj[o]) = Wanted(obj[o])

=============================================================================
