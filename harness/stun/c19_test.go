//go:build verif

package stun_test

import (
	"testing"

	"github.com/pion/stun/v3"
)

// TestVerifC19 dumps the complete tables of MessageType.Value and ReadValue.
func TestVerifC19(t *testing.T) {
	tw := newTrace(t)
	defer tw.close()
	for m := 0; m < 4096; m++ {
		vals := make([]int, 4)
		for c := 0; c < 4; c++ {
			vals[c] = int(stun.MessageType{Method: stun.Method(m), Class: stun.MessageClass(c)}.Value())
		}
		tw.emit(map[string]interface{}{"k": "V", "m": m, "vals": vals})
	}
	for base := 0; base < 65536; base += 16 {
		mc := make([][2]int, 16)
		for i := 0; i < 16; i++ {
			var mt stun.MessageType
			mt.ReadValue(uint16(base + i))
			mc[i] = [2]int{int(mt.Method), int(mt.Class)}
		}
		tw.emit(map[string]interface{}{"k": "R", "base": base, "mc": mc})
	}
	// beyond the property: comprehension ranges over the whole attribute-type domain, the panic domain of
	// MessageClass.String and totality of the other String methods
	for base := 0; base < 65536; base += 16 {
		req, opt := make([]bool, 16), make([]bool, 16)
		for i := 0; i < 16; i++ {
			req[i] = stun.AttrType(base + i).Required()
			opt[i] = stun.AttrType(base + i).Optional()
		}
		tw.emit(map[string]interface{}{"k": "Q", "base": base, "req": req, "opt": opt})
	}
	str := func(f func() string) (s string, panicked bool) {
		defer func() {
			if r := recover(); r != nil {
				panicked = true
			}
		}()
		return f(), false
	}
	for c := 0; c < 256; c++ {
		name, p := str(func() string { return stun.MessageClass(c).String() })
		tw.emit(map[string]interface{}{"k": "C", "class": c, "panics": p, "name": name})
	}
	for base := 0; base < 65536; base += 256 {
		ok := make([]bool, 256)
		for i := range ok {
			s1, p1 := str(func() string { return stun.AttrType(base + i).String() })
			s2, p2 := str(func() string { return stun.Method((base + i) % 4096).String() })
			s3, p3 := str(func() string {
				return stun.MessageType{Method: stun.Method((base + i) % 4096), Class: stun.MessageClass(i % 4)}.String()
			})
			ok[i] = !p1 && !p2 && !p3 && s1 != "" && s2 != "" && s3 != ""
		}
		tw.emit(map[string]interface{}{"k": "N", "base": base, "ok": ok})
	}
}
