SPECIFICATION Spec
CONSTANT None = None
INVARIANT ClosedIsEmpty
POSTCONDITION WriteOut
CHECK_DEADLOCK FALSE
