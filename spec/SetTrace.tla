------------------------------ MODULE SetTrace ------------------------------
(***************************************************************************)
(* Trace validation for C09: which arguments a setter must reject (from    *)
(* the RFC limits, StunAttrs) and atomicity of a rejecting setter.         *)
(*  set   {setter, n, ctx, err, before, after}                             *)
(*  build {list:[{setter,n}], err, types, decodable}                       *)
(***************************************************************************)
EXTENDS TraceBase, StunAttrs

VARIABLE l

HasFingerprint(ctx) == ctx \in {"fp", "fp-then-attr"}

ShouldReject(setter, n, fpPresent) ==
  CASE setter = "username"  -> n > TextLimit(AttrUsername)
    [] setter = "realm"     -> n > TextLimit(AttrRealm)
    [] setter = "nonce"     -> n > TextLimit(AttrNonce)
    [] setter = "software"  -> n > TextLimit(AttrSoftware)
    [] setter = "reason"    -> n > ReasonLimit
    [] setter \in {"xorip", "mappedip", "altserver", "origin", "other"} -> n \notin {4, 16}   \* whatever the bytes are
    [] setter = "errorcode" -> n \notin DefaultReasonCodes
    [] setter = "integrity" -> fpPresent
    [] OTHER -> FALSE

TypeOfSetter(setter) ==
  CASE setter = "username" -> 6 [] setter = "realm" -> 20 [] setter = "nonce" -> 21 [] setter = "software" -> 32802
    [] setter \in {"reason", "errorcode"} -> 9 [] setter = "xorip" -> 32 [] setter = "mappedip" -> 1
    [] setter = "altserver" -> 32803 [] setter = "origin" -> 32811 [] setter = "other" -> 32812
    [] setter = "integrity" -> 8 [] setter = "fingerprint" -> 32808 [] OTHER -> 0

SetLine(n, e) ==
  LET rej == ShouldReject(e.setter, e.n, HasFingerprint(e.ctx)) IN
  /\ Require(e.err # "panic", n, "panic", [setter |-> e.setter, n |-> e.n])
  /\ Require((e.err # "nil") = rej, n, IF rej THEN "unrepresentable-value-accepted" ELSE "valid-value-rejected",
             [setter |-> e.setter, n |-> e.n, ctx |-> e.ctx, err |-> e.err])
  /\ (e.err # "nil") =>
        Require(e.before = e.after, n, "failing-setter-changed-message",
                [setter |-> e.setter, n |-> e.n, ctx |-> e.ctx,
                 rawlen_before |-> Len(e.before.raw), rawlen_after |-> Len(e.after.raw),
                 attrs_before |-> Len(e.before.attrs), attrs_after |-> Len(e.after.attrs)])
  /\ (e.err = "nil") =>
        \* I: exactly one attribute of the setter's type was appended and the bytes still frame
        /\ Expect(/\ Len(e.after.attrs) = Len(e.before.attrs) + 1
                  /\ e.after.attrs[Len(e.after.attrs)][1] = TypeOfSetter(e.setter)
                  /\ Parse(e.after.raw).ok, n, "accepted-setter-effect", [setter |-> e.setter, n |-> e.n])

RECURSIVE FirstBad(_, _, _)
\* index of the first rejecting setter in list (0 = none); a fingerprint earlier in the list makes integrity reject
FirstBad(list, i, fpSeen) ==
  IF i > Len(list) THEN 0
  ELSE IF ShouldReject(list[i].setter, list[i].n, fpSeen) THEN i
  ELSE FirstBad(list, i + 1, fpSeen \/ list[i].setter = "fingerprint")

BuildLine(n, e) ==
  LET k == FirstBad(e.list, 1, FALSE)
      applied == IF k = 0 THEN Len(e.list) ELSE k - 1
  IN /\ Require((e.err # "nil") = (k # 0), n, "build-error",
                [first_rejecting |-> k, err |-> e.err, list |-> e.list])
     /\ Require(/\ Len(e.types) = applied
                /\ \A i \in 1..applied :
                      (TypeOfSetter(e.list[i].setter) # 0) => e.types[i] = TypeOfSetter(e.list[i].setter),
                n, "build-did-not-stop-at-first-failing-setter",
                [first_rejecting |-> k, types |-> e.types, list |-> e.list])
     /\ Require(e.decodable /\ e.rawlen = 20 + e.length, n, "build-left-malformed-message", [first_rejecting |-> k])

CheckLine(n, e) ==
  CASE e.k = "set" -> SetLine(n, e)
    [] e.k = "build" -> BuildLine(n, e)
    [] OTHER -> Reject(n, "unknown-line", e.k)

Init == RegInit /\ l = 1
Next == /\ l <= NLines
        /\ CheckLine(l, Trace[l])
        /\ Consumed(l)
        /\ l' = l + 1
Spec == Init /\ [][Next]_l
=============================================================================
