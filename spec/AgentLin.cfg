SPECIFICATION Spec
CONSTANT None = None
POSTCONDITION WriteOut
CHECK_DEADLOCK FALSE
