------------------------------- MODULE AttrGen -------------------------------
(***************************************************************************)
(* Case structure for C06: attribute kind x address form x boundary values.*)
(* Every case is one TLC state; TLC checks the reference codec's own round *)
(* trip on it and exports the case with its reference encoding ("VEC ...") *)
(* so that the real getters are also fed bytes the library did not write.  *)
(***************************************************************************)
EXTENDS StunAttrs, TLC, Json

VARIABLE c
Pat(n, a, m) == [i \in 1..n |-> (a + i * m) % 256]

Tids == { Zeros(12), Fill(12, 255), << 33, 18, 164, 66, 33, 18, 164, 66, 33, 18, 164, 66 >>, Pat(12, 7, 37) }
IPs4 == { Zeros(4), Fill(4, 255), << 33, 18, 164, 66 >>, << 192, 0, 2, 1 >> }
IPs6 == { Zeros(16), Fill(16, 255), Pat(16, 1, 17), << 33, 18, 164, 66 >> \o Pat(12, 7, 37),
          Zeros(10) \o << 255, 255, 10, 0, 0, 1 >>,             \* IPv4-mapped
          Zeros(10) \o << 255, 254, 10, 0, 0, 1 >> }            \* not IPv4-mapped (one bit off)
Ports == {0, 1, 80, 3478, 8466, 8467, 32767, 32768, 65534, 65535}
XorTypes == {32, 18, 22}                \* XOR-MAPPED-ADDRESS, XOR-PEER-ADDRESS, XOR-RELAYED-ADDRESS
MappedTypes == {1, 32803, 32811, 32812} \* MAPPED-ADDRESS, ALTERNATE-SERVER, RESPONSE-ORIGIN, OTHER-ADDRESS
TextTypes == {AttrUsername, AttrRealm, AttrNonce, AttrSoftware}
Codes == {300, 301, 399, 400, 401, 420, 438, 487, 499, 500, 508, 599, 600, 699}
ReasonLens == {0, 1, 3, 4, 13, 128, 762, 763}
ListLens == {0, 1, 2, 3, 4, 19, 20, 21, 64}

Init ==
  \/ \E fam \in {"xor", "mapped"}, ip \in IPs4 \cup IPs6, port \in Ports, tid \in Tids :
       \E t \in (IF fam = "xor" THEN XorTypes ELSE MappedTypes) :
         c = [k |-> "addr", fam |-> fam, atype |-> t, tid |-> tid, ip |-> ip, port |-> port,
              enc |-> IF fam = "xor" THEN EncXor(ip, port, tid) ELSE EncMapped(ip, port)]
  \/ \E t \in TextTypes : \E d \in {0, 1, 2, 3, 4, 5, 100} \cup { TextLimit(t) - k : k \in 0..4 } :
       c = [k |-> "text", atype |-> t, val |-> Pat(d, 64, 3), enc |-> Pat(d, 64, 3)]
  \/ \E code \in Codes, n \in ReasonLens :
       c = [k |-> "ecode", code |-> code, reason |-> Pat(n, 32, 5), enc |-> EncErrorCode(code, Pat(n, 32, 5))]
  \/ \E n \in ListLens :
       LET list == [i \in 1..n |-> (i * 4099) % 65536] IN
       c = [k |-> "unk", list |-> list, enc |-> EncUnknown(list)]
  \* every 16-bit attribute type as a list entry (an entry is a number, not an attribute header: no alias mapping,
  \* no range restriction), 64 consecutive types per list
  \/ \E b \in 0..1023 :
       LET list == [i \in 1..64 |-> b * 64 + i - 1] IN
       c = [k |-> "unk", list |-> list, enc |-> EncUnknown(list)]
  \/ \E t \in {0, 1, 32, 32800, 32802, 32767, 32768, 65535} :
       c = [k |-> "unk", list |-> << t >>, enc |-> EncUnknown(<< t >>)]
Next == UNCHANGED c
Spec == Init /\ [][Next]_c

RoundTrip ==
  CASE c.k = "addr" ->
         /\ WellFormedAddr(c.enc)
         /\ LET d == IF c.fam = "xor" THEN DecXor(c.enc, c.tid) ELSE DecMapped(c.enc) IN
            d.ip = NormIP(c.ip) /\ d.port = c.port
    [] c.k = "text" -> Len(c.enc) <= TextLimit(c.atype)
    [] c.k = "ecode" -> DecErrorCode(c.enc) = [code |-> c.code, reason |-> c.reason]
    [] c.k = "unk" -> DecUnknown(c.enc) = c.list /\ Len(c.enc) = 2 * Len(c.list)

Export == PrintT("VEC " \o ToJson(c))
=============================================================================
