------------------------------ MODULE AgentMC ------------------------------
(* Exhaustive configuration of Agent; every transition is exported as one  *)
(* JSON line (prefix "EDGE ") for the replay generator.                     *)
EXTENDS Agent, TLC, Json

CONSTANTS i1, i2, i3, i4, h1, h2

IdIndex(i) == CASE i = i1 -> 1 [] i = i2 -> 2 [] i = i3 -> 3 [] i = i4 -> 4
HName(h) == CASE h = h1 -> 1 [] h = h2 -> 2 [] OTHER -> 0

SView(s) == [tab |-> [k \in 1..Cardinality(Ids) |->
                        LET i == CHOOSE j \in Ids : IdIndex(j) = k IN
                        IF s.tab[i] = None THEN -1 ELSE s.tab[i]],
             closed |-> s.closed, h |-> HName(s.handler)]

ActJ(a) ==
  CASE a.op = "start"      -> [op |-> a.op, id |-> IdIndex(a.id), d |-> a.d]
    [] a.op \in {"stop", "stoperr", "process"} -> [op |-> a.op, id |-> IdIndex(a.id)]
    [] a.op = "collect"    -> [op |-> a.op, t |-> a.t]
    [] a.op = "sethandler" -> [op |-> a.op, h |-> HName(a.h)]
    [] OTHER               -> [op |-> a.op]

PrintEdge ==
  PrintT("EDGE " \o ToJson([f |-> SView(ag), a |-> ActJ(act'), t |-> SView(ag')]))
=============================================================================
