------------------------------- MODULE Client -------------------------------
(***************************************************************************)
(* stun.Client (client.go) at gate level.                                  *)
(*                                                                         *)
(* Processes: callers (one Start each), the reader goroutine RD, the       *)
(* collector goroutine CL, the closer X; the environment delivers          *)
(* datagrams, advances the clock and makes writes fail.  A process is      *)
(* always parked at a *gate* - a call into an injected interface (agent    *)
(* method, wrapped agent handler entry/exit, conn.Write/Read/Close,        *)
(* clock.Now, collector.Close, user/fallback handler entry; plus the entry  *)
(* of c.start, the client-table registration, through the verif hook) -    *)
(* and one                                                                 *)
(* action runs it from that gate to the next one, i.e. through at most one *)
(* critical section of client.go / agent.go.  The real client is replayed  *)
(* gate by gate against behaviours of this model.                          *)
(*                                                                         *)
(* Pooled clientTransaction objects have identity (Objs): an object put    *)
(* back can be acquired by a later Start while another goroutine still     *)
(* holds a reference to it.                                                *)
(*                                                                         *)
(* The model describes the code with the D5, D8 and D9 repairs; D5: (a transaction found    *)
(* while the client is closed is completed, never retransmitted).          *)
(***************************************************************************)
EXTENDS Integers, Sequences, FiniteSets, TLC

CONSTANTS Starts,        \* start instances (one caller process each)
          IdOf,          \* IdOf[s]: transaction id used by start instance s
          Objs,          \* pooled clientTransaction objects
          MaxAttempts,   \* c.maxAttempts (0 = WithNoRetransmit)
          MaxClock,      \* clock values 0..MaxClock
          FailBudget,    \* how many conn.Write calls may fail
          RespBudget,    \* how many response datagrams the environment may deliver
          JunkBudget,    \* garbage / unknown-id datagrams
          CloseConn,     \* FALSE = WithNoConnClose
          HasFallback,   \* WithHandler set
          IdleCollects,  \* how many Collect calls that find nothing expired are explored (they let the real agent
                         \* show a deadline that is earlier than the model's)
          RtoChanges,    \* how many times SetRTO may be called (it toggles the client's RTO between 1 and 2)
          DeadlineTicks, \* TRUE: the clock jumps straight past the next agent deadline (deep retransmission chains)
          OneAtATime,    \* TRUE: a Collect / Close that would emit events for several ids at once is not taken
                         \* (the real agent iterates a Go map: their order cannot be replayed)
          SafePool,      \* TRUE: a retransmission write does not fail while another goroutine holds the same pooled
                         \* object (excludes the double put of K5, see DESIGN.md)
          Strict,        \* TRUE: the reader does not process a response while another goroutine is between the
                         \* client-table delete and the agent re-registration of the same id (excludes K2/K3)
          AllowClose,    \* the closer process exists
          AllowDo,       \* a caller may be Client.Do: after Start returned nil it waits for its handler to finish
          AllowIndicate, \* a caller may be Client.Indicate (Start without a handler): one write, no transaction
          WObjs,         \* pooled callbackWaitHandler objects of Client.Do (identity matters: the pool is global)
          PoolOnError,   \* TRUE = the code before the D8 repair: Do puts its wait handler back even when Start failed
          DupMode,       \* TRUE = caller DupStart uses the transaction id of another caller (IdOf maps both to one id):
          DupStart,      \*   it is an indication, or a Start/Do that finds the id registered and is refused at once
          None

RD == "RD"
CL == "CL"
X  == "X"
Procs == Starts \cup {RD, CL, X}
Ids == { IdOf[s] : s \in Starts }
Unk == "unk"                       \* a transaction id nobody started

VARIABLES
  closed, closeChan, connCloses,     \* client: closed flag, close(c.close) done, conn.Close calls
  ct,                                \* client table: id -> object or None
  at, aclosed, alock,                \* agent table (id -> deadline), closed flag, mutex held across Close's callbacks
  obj,                               \* obj[o] = [id, attempt, calls, owner, free]
  clock,
  idleLeft,                          \* remaining fruitless Collect calls
  rto, rtoBudget,                    \* the client's current RTO (SetRTO), remaining SetRTO calls
  pc, loc,                           \* gate each process is parked at; its locals
  inbox,                             \* datagram waiting at conn.Read: None | [kind, id]
  fails, resps, junk,                \* remaining budgets
  wsucc,                             \* wsucc[id]: number of successful writes for id
  wlog,                              \* sequence of writes [id, attempt, t, ok]   (observation)
  hcalls, hlast, ret, fbcalls,       \* per start: handler invocations, last event kind, Start result; fallback calls
  ended,                             \* ended[id]: the transaction's handler has run or Close returned (for QuietAfterEnd)
  wp                                 \* Do's wait handlers: wp.w[x] = [free, processed, cb]; wp.panic: HandleEvent found no callback

vars == << closed, closeChan, connCloses, ct, at, aclosed, alock, obj, clock, idleLeft, rto, rtoBudget, pc, loc, inbox,
           fails, resps, junk, wsucc, wlog, hcalls, hlast, ret, fbcalls, ended, wp >>

\* observation-only variables are hidden from the state identity
View == << closed, closeChan, connCloses, ct, at, aclosed, alock, obj, clock, idleLeft, rto, rtoBudget, pc, loc, inbox,
           fails, resps, junk, wsucc, hcalls, ret, fbcalls, ended, wp >>

NoLoc == [id |-> None, o |-> None, ev |-> None, todo |-> <<>>, rpc |-> None, s |-> None, now |-> 0, w |-> None]

Init ==
  /\ closed = FALSE /\ closeChan = FALSE /\ connCloses = 0
  /\ ct = [i \in Ids |-> None]
  /\ at = [i \in Ids |-> None] /\ aclosed = FALSE /\ alock = None
  /\ obj = [o \in Objs |-> [id |-> None, attempt |-> 0, calls |-> 0, owner |-> None, free |-> TRUE, reg |-> 0, prev |-> 0, rto |-> 1, w |-> None]]
  /\ clock = 0
  /\ rto = 1 /\ rtoBudget = RtoChanges /\ idleLeft = IdleCollects
  /\ pc = [p \in Procs |-> IF p \in Starts THEN "idle" ELSE IF p = RD THEN "RD_read" ELSE IF p = CL THEN "CL_idle"
                           ELSE IF AllowClose THEN "X_begin" ELSE "X_never"]
  /\ loc = [p \in Procs |-> NoLoc]
  /\ inbox = None
  /\ fails = FailBudget /\ resps = RespBudget /\ junk = JunkBudget
  /\ wsucc = [i \in Ids |-> 0]
  /\ wlog = <<>>
  /\ hcalls = [s \in Starts |-> 0] /\ hlast = [s \in Starts |-> None] /\ ret = [s \in Starts |-> "none"]
  /\ fbcalls = 0
  /\ ended = [i \in Ids |-> FALSE]
  /\ wp = [w |-> [x \in WObjs |-> [free |-> TRUE, processed |-> FALSE, cb |-> None]], panic |-> FALSE]

Ev(kind, id) == [kind |-> kind, id |-> id]

Goto(p, l) == pc' = [pc EXCEPT ![p] = l]
SetLoc(p, r) == loc' = [loc EXCEPT ![p] = r]

\* a transaction keeps the RTO that was current when it was started (obj[o].rto)
Deadline(now, attempt, r) == now + (attempt + 1) * r

\* Do's wait handlers (callbackWaitHandlerPool).  setCallback stores the caller's callback and leaves `processed`
\* as it is; a handler whose Start failed goes back to the pool only in the code before the D8 repair; an object
\* that is dropped is never handed out again (sync.Pool would build a new one: WObjs has one per caller)
FreeW == { x \in WObjs : wp.w[x].free }
AcquireW(x, s) == [wp EXCEPT !.w[x].free = FALSE, !.w[x].cb = s]
ReleaseOnErr(q, x) == IF x = None \/ ~PoolOnError THEN q ELSE [q EXCEPT !.w[x].free = TRUE]
Kinds == {"start"} \cup (IF AllowDo /\ FreeW # {} THEN {"do"} ELSE {}) \cup (IF AllowIndicate THEN {"ind"} ELSE {})

---------------------------------------------------------------------------
(* conn.Write: succeeds, or fails while the budget lasts *)
WriteOutcomes == IF fails > 0 THEN {TRUE, FALSE} ELSE {TRUE}

LogWrite(id, attempt, reg, prev, r, ok) ==
  /\ wlog' = Append(wlog, [id |-> id, attempt |-> attempt, t |-> clock, reg |-> reg, prev |-> prev, rto |-> r, ok |-> ok])
  /\ wsucc' = IF ok THEN [wsucc EXCEPT ![id] = @ + 1] ELSE wsucc
  /\ fails' = IF ok THEN fails ELSE fails - 1

---------------------------------------------------------------------------
(* Client.Start, one caller process per start instance *)

\* S0: checkInit + closed read under RLock, up to the clock.Now gate
StartBegin(s) ==
  /\ pc[s] = "idle"
  /\ \E kind \in (IF DupMode /\ s = DupStart THEN {"ind"} ELSE Kinds) : \E x \in (IF kind = "do" THEN FreeW ELSE {None}) :
       LET q == IF kind = "do" THEN AcquireW(x, s) ELSE wp IN     \* Do: pool.Get, setCallback, then Start
       IF closed
       THEN /\ Goto(s, "done") /\ ret' = [ret EXCEPT ![s] = "err"] /\ UNCHANGED loc /\ wp' = ReleaseOnErr(q, x)
       ELSE \* with a handler: on to the clock reading; an indication goes straight to conn.Write
            /\ Goto(s, IF kind = "ind" THEN "I_write" ELSE "S_now")
            /\ SetLoc(s, [NoLoc EXCEPT !.id = IdOf[s], !.s = s, !.w = x]) /\ UNCHANGED ret /\ wp' = q
  /\ UNCHANGED << closed, closeChan, connCloses, ct, at, aclosed, alock, obj, clock, idleLeft, rto, rtoBudget, inbox, fails, resps, junk,
                  wsucc, wlog, hcalls, hlast, fbcalls, ended >>

\* A Start or Do whose transaction id is registered already (the other caller's transaction is in flight) returns
\* ErrTransactionExists and leaves everything as it was.  One action: the duplicate call runs from its first gate to
\* its return while nobody else moves (the general interleaving of two live transactions with one id is outside the
\* modelled scope; this is the case a caller can produce by mistake at any time).
DupRefused(s) ==
  /\ DupMode /\ s = DupStart /\ pc[s] = "idle"
  /\ ~closed /\ ct[IdOf[s]] # None
  /\ Goto(s, "done") /\ ret' = [ret EXCEPT ![s] = "err"]
  /\ UNCHANGED << wp, closed, closeChan, connCloses, ct, at, aclosed, alock, obj, clock, idleLeft, rto, rtoBudget, loc, inbox, fails, resps, junk,
                  wsucc, wlog, hcalls, hlast, fbcalls, ended >>

\* S1: clock read, acquire a pooled object (any free one), snapshot (RTO included) -> c.start gate
StartNow(s) ==
  /\ pc[s] = "S_now"
  /\ \E o \in { x \in Objs : obj[x].free } :
       /\ obj' = [obj EXCEPT ![o] = [id |-> IdOf[s], attempt |-> 0, calls |-> 0, owner |-> s, free |-> FALSE, reg |-> clock, prev |-> clock, rto |-> rto, w |-> loc[s].w]]
       /\ Goto(s, "S_cstart") /\ SetLoc(s, [loc[s] EXCEPT !.o = o, !.now = clock])
  /\ UNCHANGED << wp, closed, closeChan, connCloses, ct, at, aclosed, alock, clock, idleLeft, rto, rtoBudget, inbox, fails, resps, junk,
                  wsucc, wlog, hcalls, hlast, ret, fbcalls, ended >>

\* S1b: c.start - the critical section that enters the transaction into the client table (its own gate: the
\* "client.start" hook) -> agent.Start gate.  A refused registration leaves the acquired object unused (it is not
\* put back: the garbage collector gets it).
StartRegister(s) ==
  /\ pc[s] = "S_cstart"
  /\ LET id == IdOf[s] IN
     IF closed \/ ct[id] # None
     THEN /\ Goto(s, "done") /\ ret' = [ret EXCEPT ![s] = "err"] /\ UNCHANGED ct /\ wp' = ReleaseOnErr(wp, loc[s].w)
     ELSE /\ ct' = [ct EXCEPT ![id] = loc[s].o]
          /\ Goto(s, "S_agentStart") /\ UNCHANGED << ret, wp >>
  /\ UNCHANGED << closed, closeChan, connCloses, at, aclosed, alock, obj, clock, idleLeft, rto, rtoBudget, loc, inbox, fails, resps, junk,
                  wsucc, wlog, hcalls, hlast, fbcalls, ended >>

\* S2: agent.Start critical section -> conn.Write gate
StartAgent(s) ==
  /\ pc[s] = "S_agentStart" /\ alock = None
  /\ LET id == IdOf[s] IN
     IF aclosed \/ at[id] # None
     THEN \* the agent refuses: the client-table entry made a moment ago is taken out again (D9 repair)
          /\ Goto(s, "done") /\ ret' = [ret EXCEPT ![s] = "err"] /\ UNCHANGED at /\ wp' = ReleaseOnErr(wp, loc[s].w)
          /\ ct' = [ct EXCEPT ![id] = None]
     ELSE /\ at' = [at EXCEPT ![id] = Deadline(loc[s].now, 0, obj[loc[s].o].rto)]
          /\ Goto(s, "S_write") /\ UNCHANGED << ret, wp, ct >>
  /\ UNCHANGED << closed, closeChan, connCloses, aclosed, alock, obj, clock, idleLeft, rto, rtoBudget, loc, inbox, fails, resps, junk,
                  wsucc, wlog, hcalls, hlast, fbcalls, ended >>

\* S3: the first transmission; on failure the client-table entry is deleted -> agent.Stop gate
\* K4 window: the first transmission fails after a collector callback already took the transaction
Untouched(s) == ct[IdOf[s]] = loc[s].o /\ obj[loc[s].o].attempt = 0 /\ at[IdOf[s]] # None

StartWrite(s) ==
  /\ pc[s] = "S_write"
  /\ \E ok \in WriteOutcomes :
       /\ (Strict /\ ~ok) => Untouched(s)
       /\ LogWrite(IdOf[s], 0, loc[s].now, loc[s].now, obj[loc[s].o].rto, ok)
       /\ IF ok
          THEN \* Start returns nil; a Do caller goes on to callbackWaitHandler.wait()
               /\ Goto(s, IF loc[s].w # None THEN "D_wait" ELSE "done")
               /\ ret' = [ret EXCEPT ![s] = "nil"] /\ UNCHANGED ct
          ELSE /\ ct' = [ct EXCEPT ![IdOf[s]] = None] /\ Goto(s, "S_agentStop") /\ UNCHANGED ret
  /\ UNCHANGED << wp, closed, closeChan, connCloses, at, aclosed, alock, obj, clock, idleLeft, rto, rtoBudget, loc, inbox, resps, junk,
                  hcalls, hlast, fbcalls, ended >>

\* S4: agent.Stop critical section; a registered transaction yields a stopped event (nested callback)
StartStop(s) ==
  /\ pc[s] = "S_agentStop" /\ alock = None
  /\ LET id == IdOf[s] IN
     IF aclosed \/ at[id] = None
     THEN /\ Goto(s, "done") /\ ret' = [ret EXCEPT ![s] = "err"] /\ UNCHANGED << at, loc >> /\ wp' = ReleaseOnErr(wp, loc[s].w)
     ELSE /\ at' = [at EXCEPT ![id] = None]
          /\ Goto(s, "CB_enter") /\ SetLoc(s, [loc[s] EXCEPT !.ev = Ev("stopped", id), !.rpc = "S_stopret"])
          /\ UNCHANGED << ret, wp >>
  /\ UNCHANGED << closed, closeChan, connCloses, ct, aclosed, alock, obj, clock, idleLeft, rto, rtoBudget, inbox, fails, resps, junk,
                  wsucc, wlog, hcalls, hlast, fbcalls, ended >>

StartStopRet(s) ==
  /\ pc[s] = "S_stopret"
  /\ Goto(s, "done") /\ ret' = [ret EXCEPT ![s] = "err"] /\ wp' = ReleaseOnErr(wp, loc[s].w)
  /\ UNCHANGED << closed, closeChan, connCloses, ct, at, aclosed, alock, obj, clock, idleLeft, rto, rtoBudget, loc, inbox, fails, resps, junk,
                  wsucc, wlog, hcalls, hlast, fbcalls, ended >>

\* Client.Indicate: nothing is registered anywhere; the result of the write is the result of the call
\* (ret "ind": written; the transaction tables never hear of it, a reply to it is a message for an unknown id)
IndicateWrite(s) ==
  /\ pc[s] = "I_write"
  /\ \E ok \in WriteOutcomes :
       /\ LogWrite(IdOf[s], 0, clock, clock, rto, ok)
       /\ Goto(s, "done") /\ ret' = [ret EXCEPT ![s] = IF ok THEN "ind" ELSE "err"]
  /\ UNCHANGED << wp, closed, closeChan, connCloses, ct, at, aclosed, alock, obj, clock, idleLeft, rto, rtoBudget, loc, inbox, resps, junk,
                  hcalls, hlast, fbcalls, ended >>

\* Client.Do: callbackWaitHandler.wait() returns once HandleEvent has run the caller's callback to its end
\* (the wait handler's condition variable is signalled after the callback returned)
DoReturn(s) ==
  /\ pc[s] = "D_wait" /\ wp.w[loc[s].w].processed
  /\ Goto(s, "done")
  /\ wp' = [wp EXCEPT !.w[loc[s].w] = [free |-> TRUE, processed |-> FALSE, cb |-> None]]    \* wait() resets, Do puts it back
  /\ UNCHANGED << closed, closeChan, connCloses, ct, at, aclosed, alock, obj, clock, idleLeft, rto, rtoBudget, loc, inbox, fails, resps, junk,
                  wsucc, wlog, hcalls, hlast, ret, fbcalls, ended >>

---------------------------------------------------------------------------
(* handleAgentCallback, run by whichever goroutine the agent called the handler in *)

\* transaction.handle(e): the once-guard; TRUE iff this call is the first for the object
PutObj(o) == [obj EXCEPT ![o] = [@ EXCEPT !.free = TRUE, !.attempt = 0, !.id = None, !.reg = 0, !.prev = 0, !.rto = 1]]

\* H1: lookup/delete under the client mutex and the completion-vs-retransmission decision
CbLookup(p) ==
  /\ pc[p] = "CB_enter"
  /\ LET e == loc[p].ev
         o == IF e.id \in Ids THEN ct[e.id] ELSE None
     IN IF o = None
        THEN \* not found: fallback handler (never for stopped events, never once closed)
             /\ IF ~closed /\ HasFallback /\ e.kind # "stopped"
                THEN Goto(p, "FB") ELSE Goto(p, "CB_exit")
             /\ UNCHANGED << ct, obj, loc >>
        ELSE /\ ct' = [ct EXCEPT ![e.id] = None]
             /\ IF closed \/ MaxAttempts <= obj[o].attempt \/ e.kind = "msg"
                THEN \* completion: once-guard, then the user handler (gate) or straight to put
                     IF obj[o].calls = 0
                     THEN /\ obj' = [obj EXCEPT ![o].calls = 1]
                          \* t.h is read right after the once-guard: the handler about to run is the current owner's
                          /\ Goto(p, "UH") /\ SetLoc(p, [loc[p] EXCEPT !.o = o, !.s = obj[o].owner, !.w = obj[o].w])
                     ELSE /\ obj' = PutObj(o) /\ Goto(p, "CB_exit") /\ UNCHANGED loc
                ELSE \* retransmission: attempt++, copy to scratch -> clock.Now gate
                     /\ obj' = [obj EXCEPT ![o].attempt = @ + 1]
                     /\ Goto(p, "R_now") /\ SetLoc(p, [loc[p] EXCEPT !.o = o, !.id = obj[o].id])
  /\ UNCHANGED << wp, closed, closeChan, connCloses, at, aclosed, alock, clock, idleLeft, rto, rtoBudget, inbox, fails, resps, junk,
                  wsucc, wlog, hcalls, hlast, ret, fbcalls, ended >>

\* the user handler body (of the start instance that owns the object *now*), then pool put
UserHandler(p) ==
  /\ pc[p] = "UH"
  /\ LET o == loc[p].o
         s == loc[p].s
         x == loc[p].w                                     \* t.h: the caller's own handler, or a Do wait handler
         tgt == IF x = None THEN s ELSE wp.w[x].cb          \* whose callback HandleEvent runs *now*
     IN /\ IF x # None /\ tgt = None
           THEN \* HandleEvent finds no callback: panic("s.callback is nil")
                /\ wp' = [wp EXCEPT !.panic = TRUE] /\ UNCHANGED << hcalls, hlast >>
           ELSE /\ hcalls' = [hcalls EXCEPT ![tgt] = IF @ < 2 THEN @ + 1 ELSE @]
                /\ hlast' = [hlast EXCEPT ![tgt] = loc[p].ev]
                /\ wp' = IF x = None THEN wp ELSE [wp EXCEPT !.w[x].processed = TRUE]
        /\ ended' = [i \in Ids |-> ended[i] \/ i = IdOf[s]]
        /\ obj' = PutObj(o)
  /\ Goto(p, "CB_exit")
  /\ UNCHANGED << closed, closeChan, connCloses, ct, at, aclosed, alock, clock, idleLeft, rto, rtoBudget, loc, inbox, fails, resps, junk,
                  wsucc, wlog, ret, fbcalls >>

Fallback(p) ==
  /\ pc[p] = "FB"
  /\ fbcalls' = IF fbcalls < 3 THEN fbcalls + 1 ELSE fbcalls
  /\ Goto(p, "CB_exit")
  /\ UNCHANGED << wp, closed, closeChan, connCloses, ct, at, aclosed, alock, obj, clock, idleLeft, rto, rtoBudget, loc, inbox, fails, resps, junk,
                  wsucc, wlog, hcalls, hlast, ret, ended >>

\* completion with an error from the retransmission path: once-guard, handler or put
FailWith(p, o, kind) ==
  IF obj[o].calls = 0
  THEN /\ obj' = [obj EXCEPT ![o].calls = 1]
       /\ Goto(p, "UH") /\ SetLoc(p, [loc[p] EXCEPT !.ev = Ev(kind, loc[p].id), !.s = obj[o].owner, !.w = obj[o].w])
  ELSE /\ obj' = PutObj(o) /\ Goto(p, "CB_exit") /\ UNCHANGED loc

\* R2: clock read for the retransmission -> c.start gate
RetxNow(p) ==
  /\ pc[p] = "R_now"
  /\ Goto(p, "R_cstart") /\ SetLoc(p, [loc[p] EXCEPT !.now = clock])
  /\ obj' = [obj EXCEPT ![loc[p].o].prev = obj[loc[p].o].reg, ![loc[p].o].reg = clock]
  /\ UNCHANGED << wp, closed, closeChan, connCloses, ct, at, aclosed, alock, clock, idleLeft, rto, rtoBudget, inbox, fails, resps, junk,
                  wsucc, wlog, hcalls, hlast, ret, fbcalls, ended >>

\* R2b: c.start re-registration (or its error path: c.delete + handle)
RetxRegister(p) ==
  /\ pc[p] = "R_cstart"
  /\ LET o == loc[p].o
         id == loc[p].id
     IN IF closed \/ ct[id] # None
        THEN /\ ct' = [ct EXCEPT ![id] = None]          \* c.delete(id): whatever is registered under id
             /\ FailWith(p, o, "starterr")
        ELSE /\ ct' = [ct EXCEPT ![id] = o]
             /\ Goto(p, "R_agentStart") /\ UNCHANGED << obj, loc >>
  /\ UNCHANGED << wp, closed, closeChan, connCloses, at, aclosed, alock, clock, idleLeft, rto, rtoBudget, inbox, fails, resps, junk,
                  wsucc, wlog, hcalls, hlast, ret, fbcalls, ended >>

\* R3: agent.Start with the new deadline (or its error path)
RetxAgent(p) ==
  /\ pc[p] = "R_agentStart" /\ alock = None
  /\ LET o == loc[p].o
         id == loc[p].id
     IN IF aclosed \/ at[id] # None
        THEN /\ ct' = [ct EXCEPT ![id] = None] /\ FailWith(p, o, "starterr") /\ UNCHANGED at
        ELSE /\ at' = [at EXCEPT ![id] = Deadline(loc[p].now, obj[o].attempt, obj[o].rto)]
             /\ Goto(p, "R_write") /\ UNCHANGED << ct, obj, loc >>
  /\ UNCHANGED << wp, closed, closeChan, connCloses, aclosed, alock, clock, idleLeft, rto, rtoBudget, inbox, fails, resps, junk,
                  wsucc, wlog, hcalls, hlast, ret, fbcalls, ended >>

\* R4: the retransmission itself
SoleHolder(p) == \A q \in Procs \ {p} : loc[q].o # loc[p].o

RetxWrite(p) ==
  /\ pc[p] = "R_write"
  /\ \E ok \in WriteOutcomes :
       /\ (SafePool /\ ~ok) => SoleHolder(p)
       /\ LogWrite(loc[p].id, obj[loc[p].o].attempt, loc[p].now, obj[loc[p].o].prev, obj[loc[p].o].rto, ok)
       /\ IF ok THEN Goto(p, "CB_exit") /\ UNCHANGED ct
          ELSE ct' = [ct EXCEPT ![loc[p].id] = None] /\ Goto(p, "R_agentStop")
  /\ UNCHANGED << wp, closed, closeChan, connCloses, at, aclosed, alock, obj, clock, idleLeft, rto, rtoBudget, loc, inbox, resps, junk,
                  hcalls, hlast, ret, fbcalls, ended >>

\* R5: agent.Stop after a failed retransmission (its nested stopped event finds nothing and is ignored),
\* then the handler gets the write error
RetxStop(p) ==
  /\ pc[p] = "R_agentStop" /\ alock = None
  /\ at' = IF aclosed THEN at ELSE [at EXCEPT ![loc[p].id] = None]
  /\ FailWith(p, loc[p].o, "writeerr")
  /\ UNCHANGED << wp, closed, closeChan, connCloses, ct, aclosed, alock, clock, idleLeft, rto, rtoBudget, inbox, fails, resps, junk,
                  wsucc, wlog, hcalls, hlast, ret, fbcalls, ended >>

\* return from the wrapped handler into the agent method that called it
\* after agent.Close returned: conn.Close is a gate only when the client owns the connection; under
\* WithNoConnClose the closer goes straight on to close(c.close) and wg.Wait
AfterAgentClose == IF CloseConn THEN Goto(X, "X_connClose") /\ UNCHANGED closeChan
                   ELSE Goto(X, "X_wait") /\ closeChan' = TRUE

CbExit(p) ==
  /\ pc[p] = "CB_exit"
  /\ CASE loc[p].rpc = "S_stopret" -> Goto(p, "S_stopret") /\ UNCHANGED << loc, at, aclosed, alock, closeChan >>
       [] loc[p].rpc = "RD" -> Goto(p, IF closeChan THEN "RD_done" ELSE "RD_read") /\ SetLoc(p, NoLoc) /\ UNCHANGED << at, aclosed, alock, closeChan >>
       [] loc[p].rpc = "CL" ->
            IF loc[p].todo = <<>>
            THEN Goto(p, "CL_idle") /\ SetLoc(p, NoLoc) /\ UNCHANGED << at, aclosed, alock, closeChan >>
            ELSE Goto(p, "CB_enter") /\ SetLoc(p, [NoLoc EXCEPT !.ev = Ev("timeout", Head(loc[p].todo)), !.todo = Tail(loc[p].todo), !.rpc = "CL"])
                 /\ UNCHANGED << at, aclosed, alock, closeChan >>
       [] loc[p].rpc = "X" ->
            IF loc[p].todo = <<>>
            THEN \* agent.Close finishes: table dropped, closed, mutex released
                 /\ at' = [i \in Ids |-> None] /\ aclosed' = TRUE /\ alock' = None
                 /\ AfterAgentClose /\ SetLoc(p, NoLoc)
            ELSE Goto(p, "CB_enter") /\ SetLoc(p, [NoLoc EXCEPT !.ev = Ev("closed", Head(loc[p].todo)), !.todo = Tail(loc[p].todo), !.rpc = "X"])
                 /\ UNCHANGED << at, aclosed, alock, closeChan >>
  /\ UNCHANGED << wp, closed, connCloses, ct, obj, clock, idleLeft, rto, rtoBudget, inbox, fails, resps, junk,
                  wsucc, wlog, hcalls, hlast, ret, fbcalls, ended >>

---------------------------------------------------------------------------
(* reader goroutine *)
ReaderRead ==
  /\ pc[RD] = "RD_read"
  /\ \/ /\ closeChan /\ Goto(RD, "RD_done") /\ UNCHANGED << loc, inbox >>
     \/ /\ ~closeChan /\ inbox # None
        /\ inbox' = None
        /\ IF inbox.kind = "garbage"
           THEN UNCHANGED << pc, loc >>                    \* undecodable: dropped, next Read
           ELSE Goto(RD, "RD_process") /\ SetLoc(RD, [NoLoc EXCEPT !.id = inbox.id])
  /\ UNCHANGED << wp, closed, closeChan, connCloses, ct, at, aclosed, alock, obj, clock, idleLeft, rto, rtoBudget, fails, resps, junk,
                  wsucc, wlog, hcalls, hlast, ret, fbcalls, ended >>

InRetxWindow(i) == \E p \in Procs : pc[p] \in {"R_now", "R_cstart", "R_agentStart"} /\ loc[p].id = i

ReaderProcess ==
  /\ pc[RD] = "RD_process" /\ alock = None
  /\ Strict => ~InRetxWindow(loc[RD].id)
  /\ IF aclosed
     THEN Goto(RD, "RD_done") /\ UNCHANGED << at, loc >>
     ELSE /\ at' = [i \in Ids |-> IF i = loc[RD].id THEN None ELSE at[i]]
          /\ Goto(RD, "CB_enter") /\ SetLoc(RD, [NoLoc EXCEPT !.ev = Ev("msg", loc[RD].id), !.rpc = "RD"])
  /\ UNCHANGED << wp, closed, closeChan, connCloses, ct, aclosed, alock, obj, clock, idleLeft, rto, rtoBudget, inbox, fails, resps, junk,
                  wsucc, wlog, hcalls, hlast, ret, fbcalls, ended >>

(* collector goroutine: one Collect(now) call *)
Perms(S) == { q \in [1..Cardinality(S) -> S] : \A i, j \in 1..Cardinality(S) : i # j => q[i] # q[j] }

CollectorRun ==
  /\ pc[CL] = "CL_idle" /\ alock = None
  /\ IF aclosed THEN UNCHANGED << at, pc, loc >>
     ELSE LET dead == { i \in Ids : at[i] # None /\ at[i] < clock } IN
          /\ dead # {}
          /\ OneAtATime => Cardinality(dead) = 1
          /\ at' = [i \in Ids |-> IF i \in dead THEN None ELSE at[i]]
          /\ \E q \in Perms(dead) :
               /\ Goto(CL, "CB_enter")
               /\ SetLoc(CL, [NoLoc EXCEPT !.ev = Ev("timeout", q[1]), !.todo = Tail(q), !.rpc = "CL"])
  /\ UNCHANGED << wp, closed, closeChan, connCloses, ct, aclosed, alock, obj, clock, idleLeft, rto, rtoBudget, inbox, fails, resps, junk,
                  wsucc, wlog, hcalls, hlast, ret, fbcalls, ended >>

\* a Collect call that finds nothing expired: no effect in the model; replayed, it gives the real agent the chance
\* to time a transaction out earlier than the model allows
CollectorIdleRun ==
  /\ pc[CL] = "CL_idle" /\ alock = None /\ ~aclosed /\ idleLeft > 0
  /\ { i \in Ids : at[i] # None /\ at[i] < clock } = {}
  /\ \E i \in Ids : at[i] # None
  /\ idleLeft' = idleLeft - 1
  /\ UNCHANGED << wp, closed, closeChan, connCloses, ct, at, aclosed, alock, obj, clock, rto, rtoBudget, pc, loc, inbox, fails, resps, junk,
                  wsucc, wlog, hcalls, hlast, ret, fbcalls, ended >>

(* Client.Close *)
CloseBegin ==
  /\ pc[X] = "X_begin"
  /\ IF closed THEN Goto(X, "X_done_err") /\ UNCHANGED closed
     ELSE closed' = TRUE /\ Goto(X, "X_collClose")
  /\ UNCHANGED << wp, closeChan, connCloses, ct, at, aclosed, alock, obj, clock, idleLeft, rto, rtoBudget, loc, inbox, fails, resps, junk,
                  wsucc, wlog, hcalls, hlast, ret, fbcalls, ended >>

\* collector.Close returns only when the collector goroutine is idle; it then stops for good
CloseCollector ==
  /\ pc[X] = "X_collClose" /\ pc[CL] = "CL_idle"
  /\ pc' = [pc EXCEPT ![X] = "X_agentClose", ![CL] = "CL_stopped"]
  /\ UNCHANGED << wp, closed, closeChan, connCloses, ct, at, aclosed, alock, obj, clock, idleLeft, rto, rtoBudget, loc, inbox, fails, resps, junk,
                  wsucc, wlog, hcalls, hlast, ret, fbcalls, ended >>

\* agent.Close: the agent mutex stays held across the closed events of all registered transactions
CloseAgent ==
  /\ pc[X] = "X_agentClose" /\ alock = None
  /\ LET reg == { i \in Ids : at[i] # None } IN
     IF aclosed THEN AfterAgentClose /\ UNCHANGED << alock, aclosed, loc, at >>
     ELSE IF reg = {} THEN /\ aclosed' = TRUE /\ AfterAgentClose /\ UNCHANGED << alock, loc, at >>
     ELSE /\ alock' = X
          /\ OneAtATime => Cardinality(reg) = 1
          /\ \E q \in Perms(reg) :
               /\ Goto(X, "CB_enter")
               /\ SetLoc(X, [NoLoc EXCEPT !.ev = Ev("closed", q[1]), !.todo = Tail(q), !.rpc = "X"])
          /\ UNCHANGED << aclosed, at, closeChan >>
  /\ UNCHANGED << wp, closed, connCloses, ct, obj, clock, idleLeft, rto, rtoBudget, inbox, fails, resps, junk,
                  wsucc, wlog, hcalls, hlast, ret, fbcalls, ended >>

\* conn.Close (unless WithNoConnClose), close(c.close); then wg.Wait
CloseConnAndChan ==
  /\ pc[X] = "X_connClose"
  /\ connCloses' = connCloses + 1
  /\ closeChan' = TRUE
  /\ Goto(X, "X_wait")
  /\ UNCHANGED << wp, closed, ct, at, aclosed, alock, obj, clock, idleLeft, rto, rtoBudget, loc, inbox, fails, resps, junk,
                  wsucc, wlog, hcalls, hlast, ret, fbcalls, ended >>

CloseWait ==
  /\ pc[X] = "X_wait" /\ pc[RD] = "RD_done"
  /\ Goto(X, "X_done")
  /\ ended' = [i \in Ids |-> TRUE]
  /\ UNCHANGED << wp, closed, closeChan, connCloses, ct, at, aclosed, alock, obj, clock, idleLeft, rto, rtoBudget, loc, inbox, fails, resps, junk,
                  wsucc, wlog, hcalls, hlast, ret, fbcalls >>

---------------------------------------------------------------------------
(* environment *)
NextDeadline == LET D == { at[i] : i \in { j \in Ids : at[j] # None } } IN
                IF D = {} THEN clock + 1 ELSE (CHOOSE d \in D : \A x \in D : d <= x) + 1

Tick ==
  /\ clock < MaxClock
  /\ DeadlineTicks => (\E j \in Ids : at[j] # None) /\ NextDeadline > clock
  /\ clock' = IF DeadlineTicks /\ NextDeadline > clock /\ NextDeadline <= MaxClock THEN NextDeadline ELSE clock + 1
  /\ UNCHANGED << wp, closed, closeChan, connCloses, ct, at, aclosed, alock, obj, idleLeft, rto, rtoBudget, pc, loc, inbox, fails, resps, junk,
                  wsucc, wlog, hcalls, hlast, ret, fbcalls, ended >>

\* Client.SetRTO: affects transactions started later only
SetRTO ==
  /\ rtoBudget > 0
  /\ rto' = 3 - rto /\ rtoBudget' = rtoBudget - 1
  /\ UNCHANGED << wp, closed, closeChan, connCloses, ct, at, aclosed, alock, obj, clock, idleLeft, pc, loc, inbox, fails, resps, junk,
                  wsucc, wlog, hcalls, hlast, ret, fbcalls, ended >>

\* a response can only exist for a request that reached the wire
Deliver ==
  /\ inbox = None /\ ~closeChan
  /\ \/ /\ resps > 0 /\ \E i \in Ids : wsucc[i] > 0 /\ inbox' = [kind |-> "msg", id |-> i] /\ resps' = resps - 1 /\ UNCHANGED junk
     \/ /\ junk > 0 /\ inbox' \in { [kind |-> "garbage", id |-> Unk], [kind |-> "msg", id |-> Unk] } /\ junk' = junk - 1 /\ UNCHANGED resps
  /\ UNCHANGED << wp, closed, closeChan, connCloses, ct, at, aclosed, alock, obj, clock, idleLeft, rto, rtoBudget, pc, loc, fails,
                  wsucc, wlog, hcalls, hlast, ret, fbcalls, ended >>

CbStep(p) == CbLookup(p) \/ UserHandler(p) \/ Fallback(p) \/ RetxNow(p) \/ RetxRegister(p) \/ RetxAgent(p) \/ RetxWrite(p)
             \/ RetxStop(p) \/ CbExit(p)

Next ==
  \/ \E s \in Starts : StartBegin(s) \/ StartNow(s) \/ StartRegister(s) \/ StartAgent(s) \/ StartWrite(s) \/ StartStop(s) \/ StartStopRet(s) \/ DoReturn(s) \/ IndicateWrite(s) \/ DupRefused(s)
  \/ \E p \in Procs : CbStep(p)
  \/ ReaderRead \/ ReaderProcess \/ CollectorRun \/ CollectorIdleRun
  \/ CloseBegin \/ CloseCollector \/ CloseAgent \/ CloseConnAndChan \/ CloseWait
  \/ Tick \/ Deliver \/ SetRTO

Spec == Init /\ [][Next]_vars

---------------------------------------------------------------------------
(* Properties *)

\* C10
AtMostOnce == \A s \in Starts : hcalls[s] <= 1
StartErrNoCall == \A s \in Starts : ret[s] = "err" => hcalls[s] = 0
CloseReturned == pc[X] = "X_done"
ExactlyOnceAfterClose == CloseReturned => \A s \in Starts : (pc[s] \in {"done", "D_wait"} /\ ret[s] = "nil") => hcalls[s] = 1
\* Do returns only after its handler ran, and is never left waiting once the handler has run and Close returned
\* an indication never has a handler call and never enters a table
IndicationsAreNotTransactions == \A s \in Starts : ret[s] = "ind" => hcalls[s] = 0
\* HandleEvent always finds the callback of the Do call that is waiting on it
NoPanic == ~wp.panic
DoWaits == [][ \A s \in Starts : (pc[s] = "D_wait" /\ pc'[s] = "done") => hcalls[s] >= 1 ]_vars
DoNotStuck == CloseReturned => \A s \in Starts : pc[s] = "D_wait" => (hcalls[s] >= 1 /\ wp.w[loc[s].w].processed)
\* the handler of a start instance sees an event for its own transaction id
RoutedByID == \A s \in Starts : hlast[s] # None => hlast[s].id = IdOf[s]

\* C11
WritesOf(i) == SelectSeq(wlog, LAMBDA w : w.id = i)
WritesBounded == \A i \in Ids : Len(WritesOf(i)) <= MaxAttempts + 1
\* nothing more is written for a transaction once its handler ran or Close returned
\* (the first transmission belongs to the Start call itself, which may be racing with Close)
QuietAfterEnd == [][ \A i \in Ids : (ended[i] /\ Len(wlog') > Len(wlog)) =>
                                     (wlog'[Len(wlog')].id # i \/ wlog'[Len(wlog')].attempt = 0) ]_vars
\* transmission k (k >= 1) goes out only after the clock passed k*RTO beyond the clock reading taken for
\* transmission k-1 (the agent compares deadline.Before(now))
OnSchedule ==
  \A k \in 1..Len(wlog) :
    wlog[k].attempt > 0 => wlog[k].reg > wlog[k].prev + wlog[k].attempt * wlog[k].rto

\* SetRTO affects only transactions started later: a live transaction's RTO never changes
RtoSnapshot == [][ \A o \in Objs : (~obj[o].free /\ ~obj'[o].free /\ obj[o].owner = obj'[o].owner) => obj'[o].rto = obj[o].rto ]_vars

\* C15
ConnOwnership == connCloses <= (IF CloseConn THEN 1 ELSE 0)
GoroutinesGone == CloseReturned => (pc[RD] = "RD_done" /\ pc[CL] = "CL_stopped")
\* no handler is invoked after Close returned (a Start that passed its closed check earlier may still write;
\* a Start that begins afterwards is refused before it writes: ClosedAPI)
SilentAfterClose == [][ CloseReturned => (hcalls' = hcalls /\ fbcalls' = fbcalls) ]_vars
ClosedStartsRefused == [][ \A s \in Starts : (CloseReturned /\ pc[s] = "idle" /\ pc'[s] # "idle") => (pc'[s] = "done" /\ ret'[s] = "err") ]_vars
ClosedAPI == CloseReturned => \A s \in Starts : (pc[s] = "idle") => ENABLED StartBegin(s)

TypeOK == /\ \A i \in Ids : ct[i] \in Objs \cup {None}
          /\ \A x \in WObjs : wp.w[x].cb \in Starts \cup {None}
          /\ alock \in {None, X}
          /\ clock \in 0..MaxClock
=============================================================================
