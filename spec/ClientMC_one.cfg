SPECIFICATION Spec
CONSTANTS
  s1 = s1
  s2 = s2
  o1 = o1
  o2 = o2
  w1 = w1
  w2 = w2
  None = None
  Starts = {s1}
  IdOf <- IdOfDef
  Objs = {o1, o2}
  MaxAttempts = 1
  MaxClock = 4
  FailBudget = 1
  RespBudget = 2
  JunkBudget = 1
  CloseConn = TRUE
  HasFallback = TRUE
  AllowClose = TRUE
  AllowDo = TRUE
  AllowIndicate = TRUE
  WObjs = {w1}
  DupMode = FALSE
  DupStart = s2
  PoolOnError = FALSE
  IdleCollects = 0
  RtoChanges = 0
  DeadlineTicks = FALSE
  OneAtATime = FALSE
  SafePool = TRUE
  Strict = FALSE
VIEW View
INVARIANT TypeOK
INVARIANT AtMostOnce
INVARIANT WritesBounded
INVARIANT ExactlyOnceAfterClose
INVARIANT RoutedByID
INVARIANT ConnOwnership
INVARIANT GoroutinesGone
INVARIANT OnSchedule
PROPERTY SilentAfterClose
PROPERTY ClosedStartsRefused
PROPERTY RtoSnapshot
CHECK_DEADLOCK FALSE
