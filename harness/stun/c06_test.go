//go:build verif

package stun_test

import (
	"bufio"
	"encoding/json"
	"net"
	"os"
	"testing"

	"github.com/pion/stun/v3"
)

type attrCase struct {
	K      string `json:"k"`
	Fam    string `json:"fam"`
	AType  int    `json:"atype"`
	TID    []int  `json:"tid"`
	IP     []int  `json:"ip"`
	Port   int    `json:"port"`
	Enc    []int  `json:"enc"`
	Val    []int  `json:"val"`
	Code   int    `json:"code"`
	Reason []int  `json:"reason"`
	List   []int  `json:"list"`
}

func tidOf(a []int) (t [stun.TransactionIDSize]byte) {
	copy(t[:], unints(a))
	return t
}

// rawWithAttr assembles header + one attribute by hand (bytes the library did not write).
func rawWithAttr(tid [stun.TransactionIDSize]byte, atype int, val []byte) []byte {
	raw := []byte{0x01, 0x01, 0, 0, 0x21, 0x12, 0xA4, 0x42}
	raw = append(raw, tid[:]...)
	raw = append(raw, attrBytes(uint16(atype), val)...)
	return setLen(raw)
}

type addrBack struct {
	IP   []int `json:"ip"`
	Port int   `json:"port"`
	Err  int   `json:"err"` // 1 = error, -1 = panic
}

func getAddr(fam string, atype int, m *stun.Message) (b addrBack) { return getAddrInto(fam, atype, m, 0) }

// getAddrInto reads into a destination whose IP slice already has `prefill` bytes (a reused getter: it last held
// an address of that size), 0 = fresh.
func getAddrInto(fam string, atype int, m *stun.Message, prefill int) (b addrBack) {
	pre := func() net.IP {
		if prefill == 0 {
			return nil
		}
		ip := make(net.IP, prefill)
		for i := range ip {
			ip[i] = 0xEE
		}
		return ip
	}
	defer func() {
		if r := recover(); r != nil {
			b = addrBack{IP: []int{}, Err: -1}
		}
	}()
	var err error
	var ip net.IP
	var port int
	if fam == "xor" {
		a := stun.XORMappedAddress{IP: pre()}
		if atype == int(stun.AttrXORMappedAddress) {
			err = a.GetFrom(m)
		} else {
			err = a.GetFromAs(m, stun.AttrType(atype))
		}
		ip, port = a.IP, a.Port
	} else {
		switch stun.AttrType(atype) {
		case stun.AttrAlternateServer:
			a := stun.AlternateServer{IP: pre()}
			err = a.GetFrom(m)
			ip, port = a.IP, a.Port
		case stun.AttrResponseOrigin:
			a := stun.ResponseOrigin{IP: pre()}
			err = a.GetFrom(m)
			ip, port = a.IP, a.Port
		case stun.AttrOtherAddress:
			a := stun.OtherAddress{IP: pre()}
			err = a.GetFrom(m)
			ip, port = a.IP, a.Port
		case stun.AttrMappedAddress:
			a := stun.MappedAddress{IP: pre()}
			err = a.GetFrom(m)
			ip, port = a.IP, a.Port
		default:
			a := stun.MappedAddress{IP: pre()}
			err = a.GetFromAs(m, stun.AttrType(atype))
			ip, port = a.IP, a.Port
		}
	}
	if err != nil {
		return addrBack{IP: []int{}, Err: 1}
	}
	return addrBack{IP: ints(ip), Port: port}
}

func addAddr(fam string, atype int, ip net.IP, port int, m *stun.Message) error {
	if fam == "xor" {
		a := stun.XORMappedAddress{IP: ip, Port: port}
		if atype == int(stun.AttrXORMappedAddress) {
			return a.AddTo(m)
		}
		return a.AddToAs(m, stun.AttrType(atype))
	}
	switch stun.AttrType(atype) {
	case stun.AttrAlternateServer:
		return (&stun.AlternateServer{IP: ip, Port: port}).AddTo(m)
	case stun.AttrResponseOrigin:
		return (&stun.ResponseOrigin{IP: ip, Port: port}).AddTo(m)
	case stun.AttrOtherAddress:
		return (&stun.OtherAddress{IP: ip, Port: port}).AddTo(m)
	case stun.AttrMappedAddress:
		return (&stun.MappedAddress{IP: ip, Port: port}).AddTo(m)
	}
	return (&stun.MappedAddress{IP: ip, Port: port}).AddToAs(m, stun.AttrType(atype))
}

func emitAddr(tw *traceWriter, fam string, atype int, tid [stun.TransactionIDSize]byte, ip []byte, port int, refEnc []int) {
	// (a)+(b): library writes, library reads back from the re-decoded message
	m := new(stun.Message)
	m.TransactionID = tid
	m.Type = stun.BindingSuccess
	m.WriteHeader()
	err := addAddr(fam, atype, net.IP(append([]byte(nil), ip...)), port, m)
	line := map[string]interface{}{"k": "addr", "src": "lib", "fam": fam, "atype": atype, "tid": ints(tid[:]),
		"ip": ints(ip), "port": port, "adderr": b01(err != nil)}
	if err == nil {
		v, _ := m.Get(stun.AttrType(atype))
		line["enc"] = ints(v)
		dm, ok := decodeCopy(m.Raw, 0)
		if ok {
			line["back"] = getAddr(fam, atype, dm)
			// the same read into getters that were last used for a 4-byte / a 16-byte address
			line["back4"] = getAddrInto(fam, atype, dm, 4)
			line["back16"] = getAddrInto(fam, atype, dm, 16)
		} else {
			line["back"] = addrBack{IP: []int{}, Err: 2}
			line["back4"], line["back16"] = line["back"], line["back"]
		}
	} else {
		line["enc"] = []int{}
		line["back"] = addrBack{IP: []int{}, Err: 1}
		line["back4"], line["back16"] = line["back"], line["back"]
	}
	tw.emit(line)
	// (c): bytes from the reference encoder, read by the library
	if refEnc != nil {
		dm, ok := decodeCopy(rawWithAttr(tid, atype, unints(refEnc)), 0)
		back := addrBack{IP: []int{}, Err: 2}
		if ok {
			back = getAddr(fam, atype, dm)
		}
		tw.emit(map[string]interface{}{"k": "addr", "src": "ref", "fam": fam, "atype": atype, "tid": ints(tid[:]),
			"ip": ints(ip), "port": port, "adderr": 0, "enc": refEnc, "back": back, "back4": back, "back16": back})
	}
}

type textBack struct {
	Val []int `json:"val"`
	Err int   `json:"err"`
}

func getText(atype int, m *stun.Message) (b textBack) {
	defer func() {
		if r := recover(); r != nil {
			b = textBack{Val: []int{}, Err: -1}
		}
	}()
	var err error
	var v []byte
	switch stun.AttrType(atype) {
	case stun.AttrUsername:
		var a stun.Username
		err = a.GetFrom(m)
		v = a
	case stun.AttrRealm:
		var a stun.Realm
		err = a.GetFrom(m)
		v = a
	case stun.AttrNonce:
		var a stun.Nonce
		err = a.GetFrom(m)
		v = a
	case stun.AttrSoftware:
		var a stun.Software
		err = a.GetFrom(m)
		v = a
	default:
		var a stun.TextAttribute
		err = a.GetFromAs(m, stun.AttrType(atype))
		v = a
	}
	if err != nil {
		return textBack{Val: []int{}, Err: 1}
	}
	return textBack{Val: ints(v)}
}

func addText(atype int, val []byte, m *stun.Message) error {
	switch stun.AttrType(atype) {
	case stun.AttrUsername:
		return stun.Username(val).AddTo(m)
	case stun.AttrRealm:
		return stun.Realm(val).AddTo(m)
	case stun.AttrNonce:
		return stun.Nonce(val).AddTo(m)
	case stun.AttrSoftware:
		return stun.Software(val).AddTo(m)
	}
	return stun.TextAttribute(val).AddToAs(m, stun.AttrType(atype), 763)
}

func emitText(tw *traceWriter, atype int, val []byte, withRef bool) {
	m := new(stun.Message)
	m.WriteHeader()
	err := addText(atype, val, m)
	line := map[string]interface{}{"k": "text", "src": "lib", "atype": atype, "val": ints(val), "adderr": b01(err != nil),
		"enc": []int{}, "back": textBack{Val: []int{}, Err: 1}}
	if err == nil {
		v, _ := m.Get(stun.AttrType(atype))
		line["enc"] = ints(v)
		if dm, ok := decodeCopy(m.Raw, 0); ok {
			line["back"] = getText(atype, dm)
		}
	}
	tw.emit(line)
	if withRef {
		var tid [stun.TransactionIDSize]byte
		back := textBack{Val: []int{}, Err: 2}
		if dm, ok := decodeCopy(rawWithAttr(tid, atype, val), 0); ok {
			back = getText(atype, dm)
		}
		tw.emit(map[string]interface{}{"k": "text", "src": "ref", "atype": atype, "val": ints(val), "adderr": 0,
			"enc": ints(val), "back": back})
	}
}

type ecodeBack struct {
	Code   int   `json:"code"`
	Reason []int `json:"reason"`
	Err    int   `json:"err"`
}

func getECode(m *stun.Message) (b ecodeBack) {
	defer func() {
		if r := recover(); r != nil {
			b = ecodeBack{Reason: []int{}, Err: -1}
		}
	}()
	var a stun.ErrorCodeAttribute
	if err := a.GetFrom(m); err != nil {
		return ecodeBack{Reason: []int{}, Err: 1}
	}
	return ecodeBack{Code: int(a.Code), Reason: ints(a.Reason)}
}

func emitECode(tw *traceWriter, code int, reason []byte, refEnc []int) {
	m := new(stun.Message)
	m.WriteHeader()
	err := stun.ErrorCodeAttribute{Code: stun.ErrorCode(code), Reason: reason}.AddTo(m)
	line := map[string]interface{}{"k": "ecode", "src": "lib", "code": code, "reason": ints(reason), "adderr": b01(err != nil),
		"enc": []int{}, "back": ecodeBack{Reason: []int{}, Err: 1}}
	if err == nil {
		v, _ := m.Get(stun.AttrErrorCode)
		line["enc"] = ints(v)
		if dm, ok := decodeCopy(m.Raw, 0); ok {
			line["back"] = getECode(dm)
		}
	}
	tw.emit(line)
	if refEnc != nil {
		var tid [stun.TransactionIDSize]byte
		back := ecodeBack{Reason: []int{}, Err: 2}
		if dm, ok := decodeCopy(rawWithAttr(tid, int(stun.AttrErrorCode), unints(refEnc)), 0); ok {
			back = getECode(dm)
		}
		tw.emit(map[string]interface{}{"k": "ecode", "src": "ref", "code": code, "reason": ints(reason), "adderr": 0,
			"enc": refEnc, "back": back})
	}
}

type unkBack struct {
	List []int `json:"list"`
	Err  int   `json:"err"`
}

func getUnk(m *stun.Message) (b unkBack) { return getUnkInto(m, nil) }

func getUnkInto(m *stun.Message, dest stun.UnknownAttributes) (b unkBack) {
	defer func() {
		if r := recover(); r != nil {
			b = unkBack{List: []int{}, Err: -1}
		}
	}()
	a := dest
	if err := a.GetFrom(m); err != nil {
		return unkBack{List: []int{}, Err: 1}
	}
	out := make([]int, len(a))
	for i, t := range a {
		out[i] = int(t)
	}
	return unkBack{List: out}
}

func emitUnk(tw *traceWriter, list []int, refEnc []int) {
	m := new(stun.Message)
	m.WriteHeader()
	ua := make(stun.UnknownAttributes, len(list))
	for i, t := range list {
		ua[i] = stun.AttrType(t)
	}
	err := ua.AddTo(m)
	line := map[string]interface{}{"k": "unk", "src": "lib", "list": list, "adderr": b01(err != nil),
		"enc": []int{}, "back": unkBack{List: []int{}, Err: 1}}
	if err == nil {
		v, _ := m.Get(stun.AttrUnknownAttributes)
		line["enc"] = ints(v)
		if dm, ok := decodeCopy(m.Raw, 0); ok {
			line["back"] = getUnk(dm)
			// a getter that last held a longer list
			line["back_reused"] = getUnkInto(dm, stun.UnknownAttributes{1, 2, 3, 4, 5, 6, 7, 8, 9, 10, 11, 12, 13, 14, 15, 16, 17, 18, 19, 20, 21, 22, 23, 24, 25, 26, 27, 28, 29, 30, 31, 32, 33, 34, 35, 36, 37, 38, 39, 40, 41, 42, 43, 44, 45, 46, 47, 48, 49, 50, 51, 52, 53, 54, 55, 56, 57, 58, 59, 60, 61, 62, 63, 64, 65, 66, 67, 68, 69, 70})
		}
	}
	if _, has := line["back_reused"]; !has {
		line["back_reused"] = line["back"]
	}
	tw.emit(line)
	if refEnc != nil {
		var tid [stun.TransactionIDSize]byte
		back := unkBack{List: []int{}, Err: 2}
		if dm, ok := decodeCopy(rawWithAttr(tid, int(stun.AttrUnknownAttributes), unints(refEnc)), 0); ok {
			back = getUnk(dm)
		}
		tw.emit(map[string]interface{}{"k": "unk", "src": "ref", "list": list, "adderr": 0, "enc": refEnc, "back": back, "back_reused": back})
	}
}

func emitAttrCase(tw *traceWriter, c attrCase) {
	switch c.K {
	case "addr":
		emitAddr(tw, c.Fam, c.AType, tidOf(c.TID), unints(c.IP), c.Port, c.Enc)
	case "text":
		emitText(tw, c.AType, unints(c.Val), true)
	case "ecode":
		emitECode(tw, c.Code, unints(c.Reason), c.Enc)
	case "unk":
		emitUnk(tw, c.List, c.Enc)
	}
}

func TestVerifC06(t *testing.T) {
	tw := newTrace(t)
	defer tw.close()
	r := newRand(6)
	if p := os.Getenv("VERIF_VECTORS"); p != "" {
		f, err := os.Open(p)
		if err != nil {
			t.Fatal(err)
		}
		sc := bufio.NewScanner(f)
		sc.Buffer(make([]byte, 1<<20), 1<<26)
		for sc.Scan() {
			var c attrCase
			if err := json.Unmarshal(sc.Bytes(), &c); err != nil {
				t.Fatal(err)
			}
			emitAttrCase(tw, c)
		}
		f.Close()
	}
	if os.Getenv("VERIF_SWEEPS") == "" {
		return
	}
	full := thorough()
	// every port, under random transaction IDs and addresses
	var tid [stun.TransactionIDSize]byte
	copy(tid[:], randBytes(r, 12))
	v4 := randBytes(r, 4)
	v6 := randBytes(r, 16)
	for port := 0; port < 65536; port++ {
		emitAddr(tw, "xor", 0x0020, tid, v4, port, nil)
		if full || port%16 == 0 {
			emitAddr(tw, "xor", 0x0020, tid, v6, port, nil)
			emitAddr(tw, "mapped", 0x0001, tid, v4, port, nil)
		}
		if full {
			emitAddr(tw, "mapped", 0x0001, tid, v6, port, nil)
		}
	}
	// random addresses, ports and transaction IDs for every address attribute
	n := 2000
	if full {
		n = 40000
	}
	xorTypes := []int{0x0020, 0x0012, 0x0016, 0x8020 + 1}
	mappedTypes := []int{0x0001, 0x8023, 0x802b, 0x802c, 0x0004, 0x0005}
	for i := 0; i < n; i++ {
		copy(tid[:], randBytes(r, 12))
		ip := randBytes(r, []int{4, 16}[r.Intn(2)])
		if r.Intn(8) == 0 {
			ip = append(append(make([]byte, 10), 0xff, 0xff), randBytes(r, 4)...)
		}
		if r.Intn(2) == 0 {
			emitAddr(tw, "xor", xorTypes[r.Intn(len(xorTypes))], tid, ip, r.Intn(65536), nil)
		} else {
			emitAddr(tw, "mapped", mappedTypes[r.Intn(len(mappedTypes))], tid, ip, r.Intn(65536), nil)
		}
	}
	// every text length up to the limit (and one beyond: C09 decides those)
	for _, at := range []int{0x0006, 0x0014, 0x0015, 0x8022} {
		lim := 763
		if at == 0x0006 {
			lim = 513
		}
		for n := 0; n <= lim; n++ {
			if full || n < 40 || n > lim-40 || n%7 == 0 {
				emitText(tw, at, randBytes(r, n), n%50 == 0)
			}
		}
	}
	// every error code 300..699 with a reason
	for code := 300; code <= 699; code++ {
		emitECode(tw, code, randBytes(r, r.Intn(40)), nil)
	}
	// lists of 0..64 types
	for n := 0; n <= 64; n++ {
		list := make([]int, n)
		for i := range list {
			list[i] = r.Intn(65536)
		}
		emitUnk(tw, list, nil)
	}
}
