"""Shared GEN/DRIVE/VALIDATE for C01 and C02 (decoder totality / RFC framing)."""
import json
import os
import vlib


def vectors_from(out):
    vs = []
    for ln in out.splitlines():
        if ln.startswith('"VEC '):
            vs.append(json.loads(json.loads(ln)[4:]))
    return vs


def write_cfg(ctx, b, full):
    name = "WireGen_gen_B%d_%s.cfg" % (b, "full" if full else "reduced")
    with open(os.path.join(ctx.specdir, name), "w") as fh:
        fh.write("SPECIFICATION Spec\nCONSTANTS\n  B = %d\n  Full = %s\nINVARIANT Agreement\nINVARIANT Export\nCHECK_DEADLOCK FALSE\n"
                 % (b, "TRUE" if full else "FALSE"))
    return name


def run(ctx, mode):
    rin = ctx.replay_input()
    vec = ctx.path("wire_vectors.ndjson")
    nvec = 0
    if rin is not None:
        with open(vec, "w") as fh:
            fh.write(json.dumps({"raw": rin["raw"], "spare": rin.get("spare", 0)}) + "\n")
        env = {}
    else:
        confs = [(24, True)] if ctx.quick() else [(32, True), (44, False)]
        vs = []
        for b, full in confs:
            r = ctx.tlc_model("WireGen", write_cfg(ctx, b, full), workers=vlib.NCPU, heap_gb=8,
                              name="length structures, body<=%d, %s choice set" % (b, "full" if full else "reduced"))
            vs += vectors_from(r["out"])
        if not vs:
            raise vlib.Inconclusive("no structures exported")
        with open(vec, "w") as fh:
            for v in vs:
                fh.write(json.dumps(v) + "\n")
        nvec = len(vs)
        env = {"VERIF_RANDOM": 3000 if ctx.quick() else 40000, "VERIF_MUTATED": 3000 if ctx.quick() else 40000,
               "VERIF_BIG": 3 if ctx.quick() else 24}
    if rin is None and not ctx.quick():
        # coverage-guided fuzzing as an input generator (the target never fails; its cache stays in the scratch dir)
        import subprocess
        cache = ctx.path("fuzzcache")
        hb = ctx.harness("stun", fuzz="FuzzVerifDecode")
        try:
            subprocess.run([hb, "-test.run", "^$", "-test.fuzz", "^FuzzVerifDecode$", "-test.fuzztime", "45s",
                            "-test.fuzzcachedir", cache, "-test.parallel", "8"], cwd=ctx.repo, timeout=240,
                           stdout=subprocess.PIPE, stderr=subprocess.STDOUT)
            dump = ctx.path("fuzz_vectors.ndjson")
            ctx.drive(hb, "TestVerifCorpusDump", env={"VERIF_TRACE_OUT": dump, "VERIF_FUZZ_CACHE": cache}, timeout=120)
            nfz = 0
            with open(vec, "a") as out, open(dump) as fh:
                for ln in fh:
                    out.write(ln)
                    nfz += 1
            ctx.extra["fuzz_corpus_inputs"] = nfz
            vlib.log("GEN %d inputs from the coverage-guided corpus" % nfz)
        except Exception as e:  # the fuzzer is an optional input source
            vlib.log("fuzz corpus unavailable: %s" % e)
    vlib.log("GEN %d length structures" % nvec)
    tagsets = [("verif",)] if ctx.quick() or rin is not None else [("verif",), ("verif", "debug")]
    total_lines = 0
    for tags in tagsets:
        h = ctx.harness("stun", tags=tags)
        trace = ctx.path("wire_%s.ndjson" % "_".join(tags))
        env2 = dict(env, VERIF_TRACE_OUT=trace, VERIF_VECTORS=vec)
        ctx.drive(h, "TestVerifWire", env=env2, timeout=900, ok_rc=(0, 3))
        files = ctx.shard(trace, vlib.NCPU * 2)
        ctx.validate("WireTrace", files, env={"VERIF_MODE": mode}, heap_gb=4, timeout=1500)
        ctx.add_samples(trace, 2, maxlen=900)
        total_lines += sum(1 for _ in open(trace))

    def input_of(rj):
        tl = rj["trace_line"]
        return {"raw": tl["in"], "spare": tl.get("spare", 0)}
    ctx.input_of = input_of
    ctx.extra.update({"structures": nvec, "inputs_driven": total_lines, "entry_points": 7,
                      "build_tags": ["+".join(t) for t in tagsets]})
    ctx.assumptions += ["StunWire.Parse / WellFramed are a faithful reading of RFC 5389 s6/s15 framing (their agreement is model-checked on every generated structure)",
                        "Go bounds checks turn out-of-range accesses into panics (memory safety is observed through them)"]
    rule = ("every length structure (declared length x attribute length fields chosen relative to the remaining body) up to the body bound, "
            "instantiated with random content, 7 buffer-length classes, 2 capacities, 7 entry points; plus seeded random, mutated-valid and maximum-size inputs")
    return vlib.finish(ctx, traces_validated=total_lines, rule=rule, exhaustive=False)
