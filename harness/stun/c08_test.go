//go:build verif

package stun_test

import (
	"bufio"
	"bytes"
	"encoding/json"
	"math/rand"
	"os"
	"testing"

	"github.com/pion/stun/v3"
)

type useDesc struct {
	Kind string `json:"kind"`
	N    int    `json:"n"`
	VLen int    `json:"vlen"`
}

type reuseScen struct {
	Prev useDesc `json:"prev"`
	Next useDesc `json:"next"`
}

type visState struct {
	Method int           `json:"method"`
	Class  int           `json:"class"`
	Length int           `json:"length"`
	TID    []int         `json:"tid"`
	Attrs  []interface{} `json:"attrs"`
	Raw    []int         `json:"raw"`
}

func visible(m *stun.Message) visState {
	s := visState{Method: int(m.Type.Method), Class: int(m.Type.Class), Length: int(m.Length),
		TID: ints(m.TransactionID[:]), Raw: ints(m.Raw), Attrs: []interface{}{}}
	for _, a := range m.Attributes {
		s.Attrs = append(s.Attrs, []interface{}{int(a.Type), int(a.Length), ints(a.Value)})
	}
	return s
}

// useInput is the caller-side data of one use: the buffers handed to the library.
type useInput struct {
	kind string
	data []byte   // decode family: the datagram
	vals [][]byte // build family: attribute values
	typs []int
}

func makeUse(r *rand.Rand, u useDesc) useInput {
	in := useInput{kind: u.Kind}
	for i := 0; i < u.N; i++ {
		l := u.VLen
		if i > 0 {
			l = (u.VLen + i*5) % 37
		}
		in.vals = append(in.vals, randBytes(r, l))
		in.typs = append(in.typs, 1+r.Intn(0x40))
	}
	switch u.Kind {
	case "decode", "write", "unmarshal", "readfrom":
		raw := []byte{byte(r.Intn(0x40)), byte(r.Intn(256)), 0, 0, 0x21, 0x12, 0xA4, 0x42}
		raw = append(raw, randBytes(r, 12)...)
		for i := range in.vals {
			a := attrBytes(uint16(in.typs[i]), in.vals[i])
			for j := 4 + len(in.vals[i]); j < len(a); j++ {
				a[j] = byte(r.Intn(256)) // padding content is arbitrary on the wire
			}
			raw = append(raw, a...)
		}
		in.data = setLen(raw)
	}
	return in
}

func clone(in useInput) useInput {
	c := useInput{kind: in.kind, data: append([]byte(nil), in.data...), typs: in.typs}
	for _, v := range in.vals {
		c.vals = append(c.vals, append([]byte(nil), v...))
	}
	return c
}

func applyUse(m *stun.Message, in useInput) bool {
	switch in.kind {
	case "decode":
		return stun.Decode(in.data, m) == nil
	case "write":
		_, err := m.Write(in.data)
		return err == nil
	case "unmarshal":
		return m.UnmarshalBinary(in.data) == nil
	case "readfrom":
		if cap(m.Raw) < len(in.data) {
			m.Raw = make([]byte, 0, len(in.data)+r8(len(in.data)))
		}
		_, err := m.ReadFrom(bytes.NewReader(in.data))
		return err == nil
	case "build":
		ss := []stun.Setter{}
		for i := range in.vals {
			ss = append(ss, stun.RawAttribute{Type: stun.AttrType(in.typs[i]), Value: in.vals[i]})
		}
		return m.Build(ss...) == nil
	case "addonly":
		m.Reset()
		m.WriteHeader()
		for i := range in.vals {
			m.Add(stun.AttrType(in.typs[i]), in.vals[i])
		}
		return true
	}
	panic("use " + in.kind)
}

func r8(n int) int { return n % 8 }

func scribble(in useInput) {
	for i := range in.data {
		in.data[i] = 0xEE
	}
	for _, v := range in.vals {
		for i := range v {
			v[i] = 0xEE
		}
	}
}

func runReuse(tw *traceWriter, r *rand.Rand, sc reuseScen, third *useDesc) {
	storage := []int{0, 48, 64, 300}[r.Intn(4)]
	m := freshMessage(storage)
	if cap(m.Attributes) == 0 && r.Intn(2) == 0 {
		// attribute list storage pre-filled with a recognisable stale entry
		m.Attributes = make(stun.Attributes, 4)
		for i := range m.Attributes {
			m.Attributes[i] = stun.RawAttribute{Type: 0x7abc, Length: 3, Value: []byte{0xA5, 0xA5, 0xA5}}
		}
		m.Attributes = m.Attributes[:0]
	}
	prevs := []useDesc{sc.Prev}
	if third != nil {
		prevs = append([]useDesc{*third}, prevs...)
	}
	for _, p := range prevs {
		applyUse(m, makeUse(r, p))
	}
	in := makeUse(r, sc.Next)
	twinIn := clone(in)
	twin := new(stun.Message)
	twin.Type = m.Type
	twin.TransactionID = m.TransactionID
	ok := applyUse(m, in)
	okTwin := applyUse(twin, twinIn)
	reused := visible(m)
	scribble(in)
	tw.emit(map[string]interface{}{"k": "reuse", "scen": sc, "ok": ok, "ok_twin": okTwin,
		"reused": reused, "twin": visible(twin), "after_overwrite": visible(m)})
}

func TestVerifC08(t *testing.T) {
	tw := newTrace(t)
	defer tw.close()
	r := newRand(8)
	f, err := os.Open(os.Getenv("VERIF_VECTORS"))
	if err != nil {
		t.Fatal(err)
	}
	defer f.Close()
	sc := bufio.NewScanner(f)
	all := []useDesc{}
	scens := []reuseScen{}
	for sc.Scan() {
		var s reuseScen
		if err := json.Unmarshal(sc.Bytes(), &s); err != nil {
			t.Fatal(err)
		}
		scens = append(scens, s)
		all = append(all, s.Prev)
	}
	reps := envInt("VERIF_REPS", 1)
	for rep := 0; rep < reps; rep++ {
		for _, s := range scens {
			runReuse(tw, r, s, nil)
		}
	}
	// triples: a third, earlier use in front of a sample of the pairs
	for i := 0; i < envInt("VERIF_TRIPLES", 0); i++ {
		s := scens[r.Intn(len(scens))]
		th := all[r.Intn(len(all))]
		runReuse(tw, r, s, &th)
	}
	// results of CloneTo and MarshalBinary are unaffected by later changes to the source
	for i := 0; i < envInt("VERIF_CLONES", 200); i++ {
		src := new(stun.Message)
		in := makeUse(r, useDesc{Kind: "build", N: r.Intn(4), VLen: 1 + r.Intn(30)})
		applyUse(src, in)
		dst := freshMessage([]int{0, 48, 300}[r.Intn(3)])
		if r.Intn(2) == 0 {
			applyUse(dst, makeUse(r, useDesc{Kind: "decode", N: 3, VLen: 30}))
		}
		cerr := src.CloneTo(dst)
		mb, _ := src.MarshalBinary()
		gb, _ := src.GobEncode()
		before := visible(dst)
		srcBefore := ints(src.Raw)
		mbBefore, gbBefore := ints(mb), ints(gb)
		// now change the source in every way a caller could
		for j := range src.Raw {
			src.Raw[j] ^= 0xFF
		}
		src.Add(stun.AttrSoftware, []byte("changed"))
		tw.emit(map[string]interface{}{"k": "clone", "ok": cerr == nil, "src": srcBefore, "clone_before": before,
			"clone_after": visible(dst), "marshal_before": mbBefore, "marshal_after": ints(mb),
			"gob_before": gbBefore, "gob_after": ints(gb)})
	}
}
