SPECIFICATION Spec
CONSTANTS
  MaxLen = 4
  Schemes = {"stun", "stuns", "turn", "turns", "http"}
  Recursive = FALSE
INVARIANT BoundedRetry
INVARIANT DoneMeansResult
INVARIANT AgreesWithFunction
PROPERTY Terminates
CHECK_DEADLOCK FALSE
