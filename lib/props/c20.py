"""C20 - hot paths allocate nothing in steady state, whatever the message."""
import json
import random
import vlib


def run(ctx):
    rin = ctx.replay_input()
    vec = ctx.path("c20_vectors.ndjson")
    if rin is not None:
        vs = [rin]
    else:
        r = ctx.tlc_model("Alloc", "Alloc.cfg", workers=vlib.NCPU, heap_gb=8, name="capacity/demand model over (warm-up shape, measured shape, operation)")
        vs = [json.loads(json.loads(ln)[4:]) for ln in r["out"].splitlines() if ln.startswith('"VEC ')]
        if not vs:
            raise vlib.Inconclusive("no vectors exported")
        rnd = random.Random(ctx.seed)
        n = 8000 if ctx.quick() else 120000
        if len(vs) > n:
            # keep every design corner (must-allocate cases) and sample the rest
            must = [v for v in vs if v["must"]]
            rest = [v for v in vs if not v["must"]]
            vs = rnd.sample(must, min(len(must), n // 4)) + rnd.sample(rest, n - min(len(must), n // 4))
    with open(vec, "w") as fh:
        for v in vs:
            fh.write(json.dumps(v) + "\n")
    h = ctx.harness("stun")
    trace = ctx.path("c20.ndjson")
    ctx.drive(h, "TestVerifC20", env={"VERIF_TRACE_OUT": trace, "VERIF_VECTORS": vec, "GOGC": "off"}, timeout=1500)
    files = ctx.shard(trace, vlib.NCPU)
    ctx.validate("AllocTrace", files)
    ctx.add_samples(trace, 3)
    ctx.input_of = lambda rj: {k: rj["trace_line"][k] for k in ("w", "m", "op", "must")}
    ctx.extra.update({"measurements": len(vs)})
    ctx.assumptions += ["allocation counts are decided by the Go compiler's escape analysis and the runtime (testing.AllocsPerRun, GC off); the specification supplies the scenario space, the requirement and an explanation model",
                        "MESSAGE-INTEGRITY's setter is documented to allocate and is not part of the rebuild measurement"]
    return vlib.finish(ctx, traces_validated=len(vs),
                       rule="(warm-up shape, measured shape <= warm-up, operation) triples enumerated by TLC (207000 in scope; sampled, all design corners kept), each measured with testing.AllocsPerRun in a dedicated process")
