------------------------------ MODULE WireTrace ------------------------------
(***************************************************************************)
(* Trace validation for C01 and C02 (mode chosen by VERIF_MODE).           *)
(* One line per input: the bytes, the spare capacity, and what each of the *)
(* seven decoding entry points did (grouped by identical outcome).  TLC    *)
(* evaluates the independent RFC parse (StunWire.Parse) on the same bytes  *)
(* and checks the requirement of the property on every group.              *)
(***************************************************************************)
EXTENDS TraceBase, StunWire

VARIABLE l

Mode == IOEnv.VERIF_MODE

\* C01 allocation bound: a small multiple of the input (32 bytes of attribute record per 4 input
\* bytes, slice growth, one copy of the input) - see DESIGN.md C01
AllocBound(n) == 64 * n + 4096

\* the harness records offset -1 for zero-length values (they expose no bytes)
OffOrNone(a) == IF a.len = 0 THEN -1 ELSE a.off
AttrTriple(a) == << a.type, a.len, OffOrNone(a) >>

C01Group(n, e, p, g) ==
  LET o == g.o IN
  /\ Require(o.r # "panic", n, "panic", [eps |-> g.eps, panic |-> IF Has(o, "panic") THEN o.panic ELSE ""])
  /\ \A i \in 1..Len(g.allocs) :
        Require(g.allocs[i] <= AllocBound(e.n), n, "alloc-bound",
                [ep |-> g.eps[i], alloc |-> g.allocs[i], bound |-> AllocBound(e.n), n |-> e.n])
  /\ (o.r = "ok") =>
        /\ Require(e.ismsg = 1, n, "ok-but-not-IsMessage", [eps |-> g.eps])
        /\ Require(o.raweq, n, "raw-differs-from-input", [eps |-> g.eps])
        \* every exposed value: exactly the declared bytes, inside the declared body, in wire order, disjoint
        /\ Require(/\ \A i \in 1..Len(o.attrs) :
                        /\ o.alen[i] = o.attrs[i][2]
                        /\ (o.alen[i] > 0) =>          \* a zero-length value exposes no bytes (offset -1)
                             /\ o.attrs[i][3] >= HeaderSize + 4
                             /\ o.attrs[i][3] + o.attrs[i][2] <= HeaderSize + Declared(e.in)
                             /\ o.attrs[i][3] + o.attrs[i][2] <= e.n
                             /\ U16At(e.in, o.attrs[i][3] - 2) = o.attrs[i][2]
                   \* wire order, disjoint: consecutive non-empty values are separated by at least the
                   \* attribute headers that lie between them
                   /\ LET ne == SelectSeq([i \in 1..Len(o.attrs) |-> i], LAMBDA i : o.alen[i] > 0) IN
                      \A k \in 1..(Len(ne) - 1) :
                        o.attrs[ne[k + 1]][3] >= o.attrs[ne[k]][3] + o.attrs[ne[k]][2] + 4 * (ne[k + 1] - ne[k]),
                   n, "value-view-outside-body", [eps |-> g.eps, attrs |-> o.attrs])
        \* I layer: the views are those of the reference parse
        /\ Expect(p.ok /\ Len(o.attrs) = Len(p.attrs)
                       /\ \A i \in 1..Len(p.attrs) : o.attrs[i][3] = OffOrNone(p.attrs[i]) /\ o.attrs[i][2] = p.attrs[i].len,
                  n, "views-differ-from-reference", [eps |-> g.eps])

LookupsOK(e, p, o) ==
  LET lk == o.look IN
  /\ \A i \in 1..Len(lk.get) :
        LET t == lk.get[i][1]
            k == FirstOfType(p.attrs, t)
        IN IF k = 0 THEN lk.get[i][2] = 0
           ELSE lk.get[i][2] = 1 /\ lk.get[i][3] = OffOrNone(p.attrs[k]) /\ lk.get[i][4] = p.attrs[k].len
  /\ \A i \in 1..Len(lk.contains) :
        (lk.contains[i][2] = 1) = HasType(p.attrs, lk.contains[i][1])
  /\ \A i \in 1..Len(lk.foreach) :
        LET f   == lk.foreach[i]
            idx == IndicesOfType(p.attrs, f.t)
            nv  == IF f.failat = 0 THEN Len(idx) ELSE f.failat      \* visits expected
        IN /\ Len(f.seen) = nv
           \* the j-th visit sees the suffix of the attribute list that starts at the j-th attribute of type t
           /\ \A j \in 1..nv : /\ f.seen[j][1] = Len(p.attrs) - idx[j] + 1
                               /\ f.seen[j][2] = OffOrNone(p.attrs[idx[j]])
           /\ f.err = (f.failat # 0)
           /\ Len(f.after) = Len(p.attrs)
           /\ \A j \in 1..Len(p.attrs) : f.after[j] = AttrTriple(p.attrs[j])

C02Group(n, e, p, g) ==
  LET o == g.o IN
  /\ Require(o.r # "panic", n, "panic", [eps |-> g.eps])
  /\ Require((o.r = "ok") = p.ok, n, "verdict",
             [eps |-> g.eps, got |-> o.r, reference_ok |-> p.ok])
  /\ (o.r = "ok" /\ p.ok) =>
        /\ Require(o.m = p.method /\ o.c = p.class /\ o.len = p.length /\ o.tid = p.tid, n, "header-fields",
                   [eps |-> g.eps, got |-> << o.m, o.c, o.len >>, want |-> << p.method, p.class, p.length >>])
        /\ Require(/\ Len(o.attrs) = Len(p.attrs)
                   /\ \A i \in 1..Len(p.attrs) :
                        /\ o.attrs[i][1] = p.attrs[i].type
                        /\ o.attrs[i][2] = p.attrs[i].len
                        /\ o.alen[i] = p.attrs[i].len,
                   n, "tlv-list", [eps |-> g.eps, got |-> o.attrs, want_count |-> Len(p.attrs)])
        /\ (Len(o.attrs) = Len(p.attrs)) =>
             IF o.vals # <<>>
             THEN Require(\A i \in 1..Len(p.attrs) : o.vals[i] = ValueOf(e.in, p.attrs[i]), n, "value-bytes",
                          [eps |-> g.eps])
             ELSE Require(o.raweq /\ \A i \in 1..Len(p.attrs) : o.attrs[i][3] = OffOrNone(p.attrs[i]), n, "value-bytes",
                          [eps |-> g.eps])
        /\ (Has(o, "look") /\ Len(o.attrs) = Len(p.attrs)) =>
             Require(LookupsOK(e, p, o), n, "lookups", [eps |-> g.eps])

CheckLine(n, e) ==
  IF e.k = "timeout"
  THEN Require(FALSE, n, "never-returned", [len |-> Len(e.in)])
  ELSE LET p == Parse(e.in) IN
       /\ Require(Len(e.in) = e.n, n, "trace-format", <<>>)
       /\ Require((e.ismsg = 1) = LooksLikeMessage(e.in), n, "IsMessage", [got |-> e.ismsg])
       /\ \A gi \in 1..Len(e.groups) :
            IF Mode = "C01" THEN C01Group(n, e, p, e.groups[gi]) ELSE C02Group(n, e, p, e.groups[gi])
       \* every line accounts for all seven entry points
       /\ Require(LET S == UNION { { e.groups[gi].eps[i] : i \in 1..Len(e.groups[gi].eps) } : gi \in 1..Len(e.groups) }
                  IN S = {"Decode", "Message.Decode", "Write", "UnmarshalBinary", "GobDecode", "ReadFrom", "CloneTo",
                          "Decode/reused", "Write/reused", "ReadFrom/reused"},
                  n, "entry-points-missing", <<>>)

Init == RegInit /\ l = 1
Next == /\ l <= NLines
        /\ CheckLine(l, Trace[l])
        /\ Consumed(l)
        /\ l' = l + 1
Spec == Init /\ [][Next]_l
=============================================================================
