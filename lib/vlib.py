"""Shared orchestration for the /verif checks (GEN -> DRIVE -> VALIDATE -> VERDICT -> EVIDENCE).

The Go harness only drives and records; TLC (model runs and trace specifications in /verif/spec)
is the judge.  Exit codes: 0 held / 1 VIOLATION / 2 inconclusive.
"""
import concurrent.futures as cf
import hashlib
import json
import os
import re
import shutil
import subprocess
import sys
import tempfile
import time

VERIF = os.path.dirname(os.path.dirname(os.path.abspath(__file__)))
SPEC = os.path.join(VERIF, "spec")
HARNESS = os.path.join(VERIF, "harness")
TLA_CP = "/opt/veriftools/tla/tla2tools.jar:/opt/veriftools/tla/CommunityModules-deps.jar"
NCPU = os.cpu_count() or 4


class Inconclusive(Exception):
    pass


def log(*a):
    print(*a, flush=True)


def go_env():
    e = dict(os.environ)
    e.update(GOFLAGS="-mod=mod", GOPROXY="off", GOSUMDB="off", GOTOOLCHAIN="local", CGO_ENABLED=e.get("CGO_ENABLED", "1"))
    return e


class Ctx:
    def __init__(self, prop, tier, seed, repo, keep=False):
        self.prop = prop
        self.tier = tier
        self.seed = seed
        self.repo = repo
        self.keep = keep
        self.t0 = time.time()
        self.scratch = tempfile.mkdtemp(prefix="verif-%s-" % prop)
        self.specdir = os.path.join(self.scratch, "spec")
        shutil.copytree(SPEC, self.specdir)
        self.bins = {}
        self.model = {"states": 0, "transitions": 0, "runs": []}
        self.val = {"traces": 0, "lines": 0, "rejects": [], "drift": [], "files": 0}
        self.samples = []
        self.extra = {}
        self.assumptions = []
        self.notes = []
        self.tlc_n = 0
        self.replay = None
        self.input_of = None

    def replay_input(self):
        """The 'input' object of the replay file given with --replay (None when not replaying)."""
        if not self.replay:
            return None
        with open(self.replay) as fh:
            rec = json.load(fh)
        if rec.get("property") != self.prop:
            raise Inconclusive("replay file belongs to %s" % rec.get("property"))
        if "input" not in rec:
            raise Inconclusive("replay file carries no input")
        return rec["input"]

    def quick(self):
        return self.tier == "quick"

    def cleanup(self):
        if not self.keep:
            shutil.rmtree(self.scratch, ignore_errors=True)
        else:
            log("scratch kept:", self.scratch)

    def path(self, *p):
        return os.path.join(self.scratch, *p)

    # ------------------------------------------------------------------ TLC
    def _java(self, heap_gb, gcthreads):
        # small heaps + serial GC for single-worker runs: first touch of memory is expensive in this VM
        if gcthreads <= 1:
            return ["java", "-XX:+UseSerialGC", "-Xmx%dg" % heap_gb, "-Xss512m", "-Djava.io.tmpdir=" + self.jtmp(), "-cp", TLA_CP]
        return ["java", "-XX:+UseParallelGC", "-XX:ParallelGCThreads=%d" % gcthreads,
                "-Xmx%dg" % heap_gb, "-Xss512m", "-Djava.io.tmpdir=" + self.jtmp(), "-cp", TLA_CP]

    def jtmp(self):
        # TLC leaves an empty tlc-<n> directory in java.io.tmpdir per run: keep them inside the scratch directory
        d = os.path.join(self.scratch, "jtmp")
        os.makedirs(d, exist_ok=True)
        return d

    def tlc(self, module, cfg=None, workers=1, heap_gb=3, timeout=600, env=None, extra=(), deque=False, quiet=True):
        """Run TLC on spec/<module>.tla; returns dict(rc, out, generated, distinct, depth, ok)."""
        self.tlc_n += 1
        md = self.path("md%d" % self.tlc_n)
        cmd = self._java(heap_gb, 1 if workers <= 1 else min(4, workers))
        if deque:
            cmd.insert(1, "-Dtlc2.tool.queue.IStateQueue=StateDeque")
        cmd += ["tlc2.TLC", "-workers", str(workers), "-metadir", md, "-noGenerateSpecTE"]
        if cfg:
            cmd += ["-config", cfg]
        cmd += list(extra) + [module + ".tla"]
        e = dict(os.environ)
        if env:
            e.update({k: str(v) for k, v in env.items()})
        t = time.time()
        try:
            p = subprocess.run(cmd, cwd=self.specdir, env=e, stdout=subprocess.PIPE, stderr=subprocess.STDOUT,
                               timeout=timeout, text=True, errors="replace")
        except subprocess.TimeoutExpired:
            shutil.rmtree(md, ignore_errors=True)
            raise Inconclusive("TLC timeout (%ds) on %s %s" % (timeout, module, cfg or ""))
        shutil.rmtree(md, ignore_errors=True)
        out = p.stdout
        r = {"rc": p.returncode, "out": out, "generated": 0, "distinct": 0, "depth": 0, "wall": time.time() - t,
             "module": module, "cfg": cfg}
        m = re.findall(r"(\d+) states generated, (\d+) distinct states found", out)
        if m:
            r["generated"], r["distinct"] = int(m[-1][0]), int(m[-1][1])
        m = re.findall(r"depth of the complete state graph search is (\d+)", out)
        if m:
            r["depth"] = int(m[-1])
        r["ok"] = p.returncode == 0 and "No error has been found" in out
        return r

    def tlc_model(self, module, cfg=None, workers=NCPU, heap_gb=8, timeout=1200, extra=(), env=None, name=None,
                  expect_violation=False):
        """Design-level exhaustive model run; counts go to the evidence."""
        r = self.tlc(module, cfg, workers=workers, heap_gb=heap_gb, timeout=timeout, extra=extra, env=env)
        if not r["ok"] and not expect_violation:
            tail = "\n".join(r["out"].splitlines()[-40:])
            raise Inconclusive("model run %s/%s failed (rc=%d):\n%s" % (module, cfg, r["rc"], tail))
        self.model["states"] += r["distinct"]
        self.model["transitions"] += r["generated"]
        self.model["runs"].append({"module": module, "cfg": cfg or module + ".cfg", "name": name or module,
                                   "states": r["distinct"], "transitions": r["generated"], "depth": r["depth"],
                                   "wall_s": round(r["wall"], 1)})
        log("MODEL %s %s: %d distinct states, %d transitions, depth %d, %.1fs" % (
            module, cfg or "", r["distinct"], r["generated"], r["depth"], r["wall"]))
        return r

    def apalache(self, module, args, timeout=600):
        """Apalache run in the scratch spec directory; returns (ok, output)."""
        out_dir = self.path("apalache-out-%d" % self.tlc_n)
        self.tlc_n += 1
        cmd = ["apalache-mc", "check", "--out-dir=" + out_dir] + list(args) + [module + ".tla"]
        try:
            p = subprocess.run(cmd, cwd=self.specdir, stdout=subprocess.PIPE, stderr=subprocess.STDOUT, timeout=timeout,
                               text=True, errors="replace")
        except subprocess.TimeoutExpired:
            raise Inconclusive("apalache timeout on " + module)
        return ("EXITCODE: OK" in p.stdout and p.returncode == 0), p.stdout

    def tlapm(self, module, timeout=900):
        """TLAPS proof check in the scratch spec directory; returns (obligations proved or 0, output)."""
        try:
            p = subprocess.run(["tlapm", "--threads", str(min(8, NCPU)), "--cleanfp", module + ".tla"], cwd=self.specdir,
                               stdout=subprocess.PIPE, stderr=subprocess.STDOUT, timeout=timeout, text=True, errors="replace")
        except subprocess.TimeoutExpired:
            raise Inconclusive("tlapm timeout on " + module)
        m = re.search(r"All (\d+) obligations? proved", p.stdout)
        return (int(m.group(1)) if m and p.returncode == 0 else 0), p.stdout

    # ------------------------------------------------------------------ Go
    def harness(self, pkg="stun", tags=("verif",), race=False, fuzz=None):
        key = (pkg, tuple(tags), race, fuzz)
        if key in self.bins:
            return self.bins[key]
        sub = "" if pkg == "stun" else "internal/hmac"
        srcdir = os.path.join(HARNESS, pkg)
        repl = {}
        for f in sorted(os.listdir(srcdir)):
            if f.endswith(".go"):
                repl[os.path.join(self.repo, sub, "zz_verif_" + f)] = os.path.join(srcdir, f)
        ov = self.path("overlay_%s.json" % pkg)
        with open(ov, "w") as fh:
            json.dump({"Replace": repl}, fh)
        out = self.path("h_%s_%s%s%s.test" % (pkg, "_".join(tags), "_race" if race else "", "_fuzz" if fuzz else ""))
        cmd = ["go", "test", "-c", "-vet=off", "-tags", ",".join(tags), "-overlay", ov, "-o", out]
        if race:
            cmd.append("-race")
        if fuzz:
            cmd.append("-fuzz=" + fuzz)     # coverage instrumentation for the fuzzing engine
        cmd.append("./" + sub if sub else ".")
        t = time.time()
        p = subprocess.run(cmd, cwd=self.repo, env=go_env(), stdout=subprocess.PIPE, stderr=subprocess.STDOUT, text=True)
        if p.returncode != 0 or not os.path.exists(out):
            raise Inconclusive("harness build failed:\n" + p.stdout[-4000:])
        log("BUILD %s tags=%s race=%s %.1fs" % (pkg, ",".join(tags), race, time.time() - t))
        self.bins[key] = out
        return out

    def drive(self, binary, test, env=None, timeout=600, ok_rc=(0,)):
        """Run one driver (a Test function of the harness binary). Returns (rc, output)."""
        e = dict(os.environ)
        e["VERIF_SEED"] = str(self.seed)
        e["VERIF_TIER"] = self.tier
        if env:
            e.update({k: str(v) for k, v in env.items()})
        cmd = [binary, "-test.run", "^%s$" % test, "-test.timeout", "%ds" % (timeout + 30), "-test.v"]
        t = time.time()
        try:
            p = subprocess.run(cmd, cwd=self.scratch, env=e, stdout=subprocess.PIPE, stderr=subprocess.STDOUT,
                               timeout=timeout + 60, text=True, errors="replace")
        except subprocess.TimeoutExpired:
            raise Inconclusive("driver %s timed out" % test)
        log("DRIVE %s rc=%d %.1fs" % (test, p.returncode, time.time() - t))
        if p.returncode not in ok_rc:
            raise Inconclusive("driver %s failed rc=%d:\n%s" % (test, p.returncode, p.stdout[-3000:]))
        return p.returncode, p.stdout

    # ------------------------------------------------------------------ validation
    def shard(self, trace_file, n, group_key=None, prefix="shard"):
        """Split an NDJSON file into <= n shards. With group_key, lines sharing the key (a 'trace id')
        stay together and in order."""
        with open(trace_file) as fh:
            lines = [ln for ln in fh if ln.strip()]
        if not lines:
            return []
        if group_key is None:
            n = max(1, min(n, len(lines)))
            per = (len(lines) + n - 1) // n
            chunks = [lines[i:i + per] for i in range(0, len(lines), per)]
        else:
            groups = {}
            order = []
            for ln in lines:
                g = json.loads(ln).get(group_key)
                if g not in groups:
                    groups[g] = []
                    order.append(g)
                groups[g].append(ln)
            n = max(1, min(n, len(order)))
            chunks = [[] for _ in range(n)]
            sizes = [0] * n
            for g in order:
                i = sizes.index(min(sizes))
                chunks[i].extend(groups[g])
                sizes[i] += len(groups[g])
            chunks = [c for c in chunks if c]
        files = []
        for i, c in enumerate(chunks):
            f = self.path("%s_%s_%d.ndjson" % (prefix, os.path.basename(trace_file), i))
            with open(f, "w") as fh:
                fh.writelines(c)
            files.append(f)
        return files

    def _validate_one(self, module, cfg, f, timeout, heap_gb, deque, env, stuck_is_reject=None):
        out = f + ".out.json"
        e = {"VERIF_TRACE": f, "VERIF_OUT": out}
        if env:
            e.update(env)
        r = self.tlc(module, cfg, workers=1, heap_gb=heap_gb, timeout=timeout, env=e, deque=deque)
        if not os.path.exists(out):
            tail = "\n".join(r["out"].splitlines()[-30:])
            raise Inconclusive("trace validation %s produced no verdict file for %s:\n%s" % (module, f, tail))
        with open(out) as fh:
            res = json.load(fh)
        with open(f) as fh:
            lines = fh.readlines()
        res["file"] = f
        res["tlc"] = {"generated": r["generated"], "distinct": r["distinct"], "rc": r["rc"], "wall": r["wall"]}
        for kind in ("rejects", "drift"):
            for rj in res.get(kind) or []:
                n = rj.get("line", 0)
                if isinstance(n, int) and 1 <= n <= len(lines):
                    try:
                        rj["trace_line"] = json.loads(lines[n - 1])
                    except Exception:
                        rj["trace_line"] = lines[n - 1][:2000]
        if res["reached"] < res["lines"] and stuck_is_reject:
            # for search-style trace specs exhaustion without consuming every line is the rejection itself
            n = res["reached"] + 1
            rj = {"line": n, "why": stuck_is_reject, "detail": {"first_unexplained_line": n, "of": res["lines"]}}
            try:
                rj["trace_line"] = json.loads(lines[n - 1])
            except Exception:
                pass
            res.setdefault("rejects", []).append(rj)
            res["reached"] = res["lines"]
        if res["reached"] < res["lines"] :
            tail = "\n".join(r["out"].splitlines()[-30:])
            raise Inconclusive("trace validation %s stopped at line %d of %d in %s (spec cannot consume the line):\n%s"
                               % (module, res["reached"], res["lines"], f, tail))
        return res

    def validate(self, module, files, cfg=None, timeout=900, heap_gb=3, deque=False, env=None, par=NCPU, traces_per_file=None,
                 stuck_is_reject=None):
        """TLC trace validation of each file (one TLC per file, -workers 1), in parallel."""
        cfg = cfg or module + ".cfg"
        results = []
        t = time.time()
        with cf.ThreadPoolExecutor(max_workers=par) as ex:
            futs = [ex.submit(self._validate_one, module, cfg, f, timeout, heap_gb, deque, env, stuck_is_reject) for f in files]
            for fu in futs:
                results.append(fu.result())
        nl = sum(r["lines"] for r in results)
        rej = [x for r in results for x in (r.get("rejects") or [])]
        dr = [x for r in results for x in (r.get("drift") or [])]
        self.val["lines"] += nl
        self.val["files"] += len(files)
        self.val["rejects"] += rej
        self.val["drift"] += dr
        self.val["tlc_states"] = self.val.get("tlc_states", 0) + sum(r["tlc"]["distinct"] for r in results)
        log("VALIDATE %s: %d files, %d lines, %d rejects, %d drift, %.1fs" % (module, len(files), nl, len(rej), len(dr), time.time() - t))
        return results

    # ------------------------------------------------------------------ verdict
    def add_samples(self, trace_file, n=3, maxlen=1500):
        try:
            with open(trace_file) as fh:
                lines = fh.readlines()
        except OSError:
            return
        if not lines:
            return
        step = max(1, len(lines) // n)
        for ln in lines[::step][:n]:
            s = ln.strip()
            if len(s) > maxlen:
                s = s[:maxlen] + "...(truncated)"
                self.samples.append(s)
            else:
                try:
                    self.samples.append(json.loads(s))
                except Exception:
                    self.samples.append(s)


def load_known():
    p = os.path.join(VERIF, "known_findings.json")
    if not os.path.exists(p):
        return {"open": [], "fixed": []}
    with open(p) as fh:
        return json.load(fh)


def flatten(d, prefix="", out=None):
    out = {} if out is None else out
    if isinstance(d, dict):
        for k, v in d.items():
            flatten(v, prefix + k + ".", out)
    else:
        out[prefix[:-1]] = d
    return out


def matches(finding, rej):
    """An open finding matches a rejection iff every key of finding['match'] equals the flattened
    rejection field of that name (the signature is as narrow as the finding's author made it)."""
    flat = flatten({k: v for k, v in rej.items()})
    for k, v in finding.get("match", {}).items():
        if k not in flat:
            return False
        if isinstance(v, dict) and "regex" in v:
            if not re.search(v["regex"], str(flat[k])):
                return False
        elif isinstance(v, dict) and "in" in v:
            if flat[k] not in v["in"]:
                return False
        elif flat[k] != v:
            return False
    return True


def finish(ctx, traces_validated, rule=None, exhaustive=False, level="model_checking"):
    """Turn accumulated rejections into KNOWN-FINDING / VIOLATION lines, write evidence, return exit code."""
    known = load_known()
    opens = [f for f in known.get("open", []) if f.get("property") == ctx.prop]
    violations = []
    known_hits = {}
    for rj in ctx.val["rejects"]:
        hit = None
        for f in opens:
            if matches(f, rj):
                hit = f
                break
        if hit is not None:
            known_hits.setdefault(hit["id"], [hit, 0])
            known_hits[hit["id"]][1] += 1
        else:
            violations.append(rj)
    for fid, (f, n) in sorted(known_hits.items()):
        log("KNOWN-FINDING: property=%s %s %s (matched %d rejected line(s))" % (ctx.prop, fid, f.get("what", ""), n))
    bywhy = {}
    for rj in violations:
        bywhy[rj.get("why")] = bywhy.get(rj.get("why"), 0) + 1
    if bywhy:
        log("REJECTIONS by requirement: " + ", ".join("%s=%d" % kv for kv in sorted(bywhy.items(), key=str)))
    rdir = os.path.join(VERIF, "replays", ctx.prop)
    seen = set()
    nviol = 0
    for rj in violations:
        rec = {"property": ctx.prop, "why": rj.get("why"), "detail": rj.get("detail"),
               "trace_line": rj.get("trace_line")}
        if getattr(ctx, "input_of", None):
            try:
                rec["input"] = ctx.input_of(rj)
            except Exception as e:  # the replay input is a convenience, never a reason to fail
                rec["input_error"] = str(e)
        body = json.dumps(rec, sort_keys=True)
        h = hashlib.sha1(body.encode()).hexdigest()[:12]
        if h in seen:
            continue
        seen.add(h)
        nviol += 1
        if nviol <= 20:
            os.makedirs(rdir, exist_ok=True)
            p = os.path.join(rdir, h + ".json")
            with open(p, "w") as fh:
                fh.write(body + "\n")
            log("VIOLATION property=%s replay=%s" % (ctx.prop, p))
            log("  why=%s detail=%s" % (rj.get("why"), json.dumps(rj.get("detail"))[:600]))
    if nviol > 20:
        log("(%d further distinct violations not written)" % (nviol - 20))
    for d in ctx.val["drift"][:10]:
        log("MODEL-DRIFT property=%s why=%s detail=%s" % (ctx.prop, d.get("why"), json.dumps(d.get("detail"))[:400]))
    cov = {
        "states": ctx.model["states"],
        "transitions": ctx.model["transitions"],
        "traces_validated_against_impl": traces_validated,
        "samples": ctx.samples[:6] or ["(no sample recorded)"],
        "trace_lines_validated": ctx.val["lines"],
        "trace_validation_tlc_states": ctx.val.get("tlc_states", 0),
        "rejected_lines": len(ctx.val["rejects"]),
        "known_finding_hits": {k: v[1] for k, v in known_hits.items()},
        "model_drift": len(ctx.val["drift"]),
        "model_runs": ctx.model["runs"],
        "exhaustive": bool(exhaustive),
    }
    if rule:
        cov["rule"] = rule
    cov.update(ctx.extra)
    ev = {
        "property_id": ctx.prop, "tier": ctx.tier, "seed": ctx.seed, "level": level,
        "coverage": cov, "assumptions": ctx.assumptions, "wall_s": round(time.time() - ctx.t0, 1),
        "violations": nviol,
    }
    if not ctx.replay and not os.environ.get("VERIF_NO_EVIDENCE"):   # a replay run re-examines one case; it does not describe the check's coverage
        os.makedirs(os.path.join(VERIF, "evidence"), exist_ok=True)
        with open(os.path.join(VERIF, "evidence", ctx.prop + ".json"), "w") as fh:
            json.dump(ev, fh, indent=1, sort_keys=True)
            fh.write("\n")
    log("RESULT property=%s tier=%s seed=%d model_states=%d transitions=%d traces=%d lines=%d violations=%d known=%d drift=%d wall=%.0fs" % (
        ctx.prop, ctx.tier, ctx.seed, ctx.model["states"], ctx.model["transitions"], traces_validated, ctx.val["lines"],
        nviol, sum(v[1] for v in known_hits.values()), len(ctx.val["drift"]), time.time() - ctx.t0))
    return 1 if nviol else 0
