------------------------------ MODULE StunWire ------------------------------
(***************************************************************************)
(* RFC 5389 s6 / s15 framing, independent of message.go.                   *)
(*                                                                         *)
(*   0                   1                   2                   3         *)
(*   0 1 2 3 4 5 6 7 8 9 0 1 2 3 4 5 6 7 8 9 0 1 2 3 4 5 6 7 8 9 0 1       *)
(*  |0 0|     STUN Message Type     |         Message Length        |      *)
(*  |                         Magic Cookie                          |      *)
(*  |                     Transaction ID (96 bits)                  |      *)
(* followed by attributes |Type(16)|Length(16)|Value ...| padded to 4.     *)
(*                                                                         *)
(* Two formulations: the grammar predicate WellFramed (what the RFC says a *)
(* message is) and the accumulating parser Parse (what a reader computes). *)
(* TLC checks that they agree on every generated structure (WireGen).      *)
(* Tolerated, as the property states: the two leading type bits, bytes     *)
(* after the declared length, any padding content, and the legacy 0x8020   *)
(* alias of XOR-MAPPED-ADDRESS.                                            *)
(***************************************************************************)
EXTENDS Bytes, StunType

HeaderSize == 20
Cookie == << 8466, 42050 >>          \* 0x2112 A442

HasHeader(b) == Len(b) >= HeaderSize
CookieOK(b) == U32At(b, 4) = Cookie
Declared(b) == U16At(b, 2)

\* grammar: body(p, e) ::= empty | TLV body   -- positions are 0-based offsets into b
RECURSIVE Tiles(_, _, _)
Tiles(b, p, e) ==
  \/ p = e
  \/ /\ p + 4 <= e
     /\ p + 4 + Pad4(U16At(b, p + 2)) <= e
     /\ Tiles(b, p + 4 + Pad4(U16At(b, p + 2)), e)

WellFramed(b) ==
  /\ HasHeader(b)
  /\ CookieOK(b)
  /\ Len(b) >= HeaderSize + Declared(b)
  /\ Tiles(b, HeaderSize, HeaderSize + Declared(b))

\* legacy alias (draft-ietf-behave-rfc3489bis-02 / MS-TURN)
CompatType(t) == IF t = 32800 THEN 32 ELSE t          \* 0x8020 -> 0x0020

Attr(t, n, off) == [type |-> t, len |-> n, off |-> off]

\* accumulating parser over [p, e): returns <<ok, attrs>>
RECURSIVE ParseAttrs(_, _, _, _)
ParseAttrs(b, p, e, acc) ==
  IF p = e THEN << TRUE, acc >>
  ELSE IF e - p < 4 THEN << FALSE, acc >>
  ELSE LET t == U16At(b, p)
           n == U16At(b, p + 2)
       IN IF e - (p + 4) < Pad4(n) THEN << FALSE, acc >>
          ELSE ParseAttrs(b, p + 4 + Pad4(n), e, Append(acc, Attr(CompatType(t), n, p + 4)))

\* the same parser as a left-to-right scan over the 32-bit words of the body (no recursion depth:
\* used for trace validation of maximum-size messages; TLC checks ScanAttrs = ParseAttrs in WireGen)
ScanAttrs(b, s, e) ==
  LET step(st, i) ==
        LET w == s + 4 * (i - 1) IN
        IF st.bad \/ w # st.p THEN st
        ELSE LET n == U16At(b, w + 2) IN
             IF w + 4 + Pad4(n) > e THEN [st EXCEPT !.bad = TRUE]
             ELSE [p |-> w + 4 + Pad4(n), bad |-> FALSE,
                   acc |-> Append(st.acc, Attr(CompatType(U16At(b, w)), n, w + 4))]
      fin == FoldLeft(step, [p |-> s, bad |-> FALSE, acc |-> <<>>], [i \in 1..((e - s) \div 4) |-> i])
  IN << ~fin.bad /\ fin.p = e, fin.acc >>

NoParse == [ok |-> FALSE, method |-> 0, class |-> 0, length |-> 0, tid |-> <<>>, attrs |-> <<>>]

Parse(b) ==
  IF ~HasHeader(b) THEN NoParse
  ELSE IF ~CookieOK(b) THEN NoParse
  ELSE IF Len(b) < HeaderSize + Declared(b) THEN NoParse
  ELSE LET r == ScanAttrs(b, HeaderSize, HeaderSize + Declared(b))
           t == U16At(b, 0)
       IN IF ~r[1] THEN NoParse
          ELSE [ok |-> TRUE, method |-> ReadMethod(t), class |-> ReadClass(t),
                length |-> Declared(b), tid |-> Take(b, 8, 12), attrs |-> r[2]]

\* recursive formulation of the whole parse (model checking only)
ParseRecOK(b) ==
  /\ HasHeader(b) /\ CookieOK(b) /\ Len(b) >= HeaderSize + Declared(b)
  /\ ParseAttrs(b, HeaderSize, HeaderSize + Declared(b), <<>>)[1]
ParseRecAttrs(b) == ParseAttrs(b, HeaderSize, HeaderSize + Declared(b), <<>>)[2]

ValueOf(b, a) == Take(b, a.off, a.len)

\* lookups over a parse result
FirstOfType(attrs, t) ==
  LET S == { i \in 1..Len(attrs) : attrs[i].type = t } IN
  IF S = {} THEN 0 ELSE CHOOSE i \in S : \A j \in S : i <= j
HasType(attrs, t) == \E i \in 1..Len(attrs) : attrs[i].type = t
IndicesOfType(attrs, t) == SelectSeq([i \in 1..Len(attrs) |-> i], LAMBDA i : attrs[i].type = t)

\* structural facts about any successful parse (checked on the model and on every trace line)
ViewsInsideBody(b, p) ==
  /\ \A i \in 1..Len(p.attrs) :
        /\ p.attrs[i].off >= HeaderSize + 4
        /\ p.attrs[i].off + p.attrs[i].len <= HeaderSize + p.length
        /\ U16At(b, p.attrs[i].off - 2) = p.attrs[i].len
  /\ \A i \in 1..(Len(p.attrs) - 1) :
        p.attrs[i + 1].off >= p.attrs[i].off + p.attrs[i].len + 4

\* the "looks like STUN" test of the API
LooksLikeMessage(b) == HasHeader(b) /\ CookieOK(b)

=============================================================================
