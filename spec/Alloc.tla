-------------------------------- MODULE Alloc --------------------------------
(***************************************************************************)
(* What decides whether a hot-path operation *has to* allocate: the        *)
(* capacities left behind by earlier uses (Raw, Attributes, getter         *)
(* destinations) against the demand of the operation on the measured       *)
(* message.  A shape abstracts a well-formed message; Warm(s) is the       *)
(* capacity state after a Message and the destination values were used for *)
(* a message of shape s.  The requirement of C20: whenever the measured    *)
(* shape is no larger than the warm-up shape in every dimension, no        *)
(* operation must allocate.  MustAlloc says where the *design* cannot meet *)
(* it (K1: the integrity check needs 20 spare bytes behind Raw for the     *)
(* digest; K6: the UNKNOWN-ATTRIBUTES setter has a 20-entry scratch).      *)
(***************************************************************************)
EXTENDS Integers, Sequences, TLC, Json

Ns    == {0, 1, 4, 16}            \* extra plain attributes
Texts == {0, 5, 64, 513}          \* USERNAME length
Fams  == {4, 16}                  \* address family (IP length)
Unks  == {0, 3, 20, 21}           \* entries in UNKNOWN-ATTRIBUTES
Shapes == [n : Ns, text : Texts, fam : Fams, unk : Unks, mi : BOOLEAN, fp : BOOLEAN]

Pad4(x) == x + ((4 - (x % 4)) % 4)
\* wire size of a message of shape s: header, USERNAME, XOR-MAPPED-ADDRESS, ERROR-CODE(4+5), UNKNOWN-ATTRIBUTES,
\* n SOFTWARE attributes of 6 bytes, MESSAGE-INTEGRITY, FINGERPRINT
\* (the largest text shape also carries the longest ERROR-CODE reason phrase, 763 bytes)
ReasonLen(s) == IF s.text = 513 THEN 763 ELSE 5
Size(s) == 20 + (4 + Pad4(s.text)) + (4 + 4 + s.fam) + (4 + Pad4(4 + ReasonLen(s))) + (4 + Pad4(2 * s.unk)) + s.n * (4 + 8)
           + (IF s.mi THEN 24 ELSE 0) + (IF s.fp THEN 8 ELSE 0)
NAttrs(s) == 4 + s.n + (IF s.mi THEN 1 ELSE 0) + (IF s.fp THEN 1 ELSE 0)

Leq(a, b) == /\ a.n <= b.n /\ a.text <= b.text /\ a.fam <= b.fam /\ a.unk <= b.unk
             /\ (a.mi => b.mi) /\ (a.fp => b.fp)

\* capacities after the warm-up use
Warm(s) == [raw |-> Size(s), attrs |-> NAttrs(s), ip |-> s.fam, ua |-> s.unk]

\* "foreach": a complete ForEach over a repeated attribute type with a getter inside; "abort_then_decode": a ForEach
\* whose callback fails on the last attribute, followed by the next Decode into the same Message (a lookup that ends
\* early must not cost the Message its warm capacities)
Ops == {"decode", "get", "xor_getfrom", "text_getfrom", "errorcode_getfrom", "unknown_getfrom",
        "integrity_check", "fingerprint_check", "rebuild", "foreach", "abort_then_decode"}

Applicable(op, s) ==
  CASE op = "integrity_check" -> s.mi
    [] op = "fingerprint_check" -> s.fp
    [] OTHER -> TRUE

\* does the design have to allocate for op on a message of shape m with capacities c?
MustAlloc(op, m, c) ==
  CASE op \in {"decode", "abort_then_decode"} -> Size(m) > c.raw \/ NAttrs(m) > c.attrs
    [] op = "xor_getfrom" -> m.fam > c.ip
    [] op = "unknown_getfrom" -> m.unk > c.ua
    [] op = "integrity_check" -> c.raw - Size(m) < 20       \* K1: Sum appends the digest behind Raw
    [] op = "rebuild" -> Size(m) > c.raw \/ m.unk > 20       \* K6: 20-entry scratch of the UNKNOWN-ATTRIBUTES setter
    [] OTHER -> FALSE

VARIABLE s
Init == s \in [w : Shapes, m : Shapes, op : Ops]
Next == UNCHANGED s
Spec == Init /\ [][Next]_s

InScope == Leq(s.m, s.w) /\ Applicable(s.op, s.m)

\* the requirement holds on the design except in the two named corners
DesignMeetsRequirement ==
  InScope => (MustAlloc(s.op, s.m, Warm(s.w)) =>
                 \/ (s.op = "integrity_check" /\ Size(s.w) - Size(s.m) < 20)
                 \/ (s.op = "rebuild" /\ s.m.unk > 20))

Export == InScope => PrintT("VEC " \o ToJson([w |-> s.w, m |-> s.m, op |-> s.op, spare |-> Size(s.w) - Size(s.m),
                                              must |-> MustAlloc(s.op, s.m, Warm(s.w))]))
=============================================================================
