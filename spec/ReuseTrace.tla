----------------------------- MODULE ReuseTrace -----------------------------
(***************************************************************************)
(* Trace validation for C08.                                               *)
(*  reuse {scen, ok, ok_twin, reused, twin, after_overwrite}: a Message    *)
(*    that held other content (poison-filled storage, stale attribute      *)
(*    records) is used again; a fresh twin with the same Type and          *)
(*    TransactionID fields performs the same use; afterwards every buffer  *)
(*    the caller handed in is overwritten.                                 *)
(*  clone {src, clone_before, clone_after, marshal_*, gob_*}: the source   *)
(*    of CloneTo / MarshalBinary / GobEncode is changed afterwards.        *)
(* R: reused = twin in everything visible (raw bytes and decoded content); *)
(*    unchanged by the caller-side overwrite; copies unaffected.           *)
(* Independent of the twin, the reused message's content must be the       *)
(* reference parse of its own raw bytes (no stale attribute, length).      *)
(***************************************************************************)
EXTENDS TraceBase, StunWire

VARIABLE l

ContentMatchesRaw(s) ==
  LET p == Parse(s.raw) IN
  /\ p.ok
  /\ p.method = s.method /\ p.class = s.class /\ p.length = s.length /\ p.tid = s.tid
  /\ Len(p.attrs) = Len(s.attrs)
  /\ \A i \in 1..Len(p.attrs) :
        /\ s.attrs[i][1] = p.attrs[i].type /\ s.attrs[i][2] = p.attrs[i].len
        /\ s.attrs[i][3] = ValueOf(s.raw, p.attrs[i])

ReuseLine(n, e) ==
  /\ Require(e.ok = e.ok_twin, n, "reused-and-fresh-disagree-on-success", [scen |-> e.scen])
  /\ (e.ok /\ e.ok_twin) =>
        /\ Require(e.reused.raw = e.twin.raw, n, "raw-bytes-differ-from-fresh-twin",
                   [scen |-> e.scen, reused_len |-> Len(e.reused.raw), twin_len |-> Len(e.twin.raw)])
        /\ Require(e.reused = e.twin, n, "content-differs-from-fresh-twin", [scen |-> e.scen])
        /\ Require(ContentMatchesRaw(e.reused), n, "stale-content", [scen |-> e.scen])
        /\ Require(e.after_overwrite = e.reused, n, "caller-buffer-aliased", [scen |-> e.scen])

CloneLine(n, e) ==
  /\ Require(e.ok, n, "clone-failed", <<>>)
  /\ Require(e.clone_before.raw = e.src /\ ContentMatchesRaw(e.clone_before), n, "clone-differs-from-source", <<>>)
  /\ Require(e.clone_after = e.clone_before, n, "clone-affected-by-source-change", <<>>)
  /\ Require(e.marshal_before = e.src /\ e.marshal_after = e.marshal_before, n, "marshal-affected-by-source-change", <<>>)
  /\ Require(e.gob_before = e.src /\ e.gob_after = e.gob_before, n, "gob-affected-by-source-change", <<>>)

Init == RegInit /\ l = 1
Next == /\ l <= NLines
        /\ LET e == Trace[l] IN
           CASE e.k = "reuse" -> ReuseLine(l, e)
             [] e.k = "clone" -> CloneLine(l, e)
             [] OTHER -> Reject(l, "unknown-line", e.k)
        /\ Consumed(l)
        /\ l' = l + 1
Spec == Init /\ [][Next]_l
=============================================================================
