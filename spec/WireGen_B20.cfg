SPECIFICATION Spec
CONSTANTS
  B = 20
  Full = TRUE
INVARIANT Agreement
INVARIANT Export
CHECK_DEADLOCK FALSE
