//go:build verif

package stun_test

import (
	"bufio"
	"crypto/ecdsa"
	"crypto/elliptic"
	crand "crypto/rand"
	"crypto/tls"
	"crypto/x509"
	"crypto/x509/pkix"
	"encoding/json"
	"errors"
	"io"
	"math/big"
	"net"
	"os"
	"sync"
	"testing"
	"time"

	"github.com/pion/stun/v3"
	"github.com/pion/transport/v3"
)

// ---- C17: parse / format / dial ------------------------------------------------------------------------

type uriVec struct {
	S    string                 `json:"s"`
	H    map[string]interface{} `json:"h"`
	P    map[string]interface{} `json:"p"`
	Q    map[string]interface{} `json:"q"`
	Text string                 `json:"text"`
}

// ---- injected network ----

type dialCall struct {
	Fn   string `json:"fn"`
	Net  string `json:"net"`
	Addr string `json:"addr"`
	Port string `json:"port"`
}

func portOf(addr string) string {
	_, p, _ := net.SplitHostPort(addr)
	return p
}

type fakeNet struct {
	transport.Net // nil: any other method panics (and is recovered + recorded)
	mu            sync.Mutex
	calls         []dialCall
	firsts        []*firstBytes
	serve         func(id int, c net.Conn) // optional server side for stream connections
}

type firstBytes struct {
	mu   sync.Mutex
	data []byte
	done chan struct{}
	once sync.Once
}

func newFirst() *firstBytes { return &firstBytes{done: make(chan struct{})} }
func (f *firstBytes) set(b []byte) {
	f.once.Do(func() {
		f.mu.Lock()
		f.data = append([]byte(nil), b...)
		f.mu.Unlock()
		close(f.done)
	})
}

func (n *fakeNet) Dial(network, address string) (net.Conn, error) {
	n.mu.Lock()
	id := len(n.calls)
	n.calls = append(n.calls, dialCall{"Dial", network, address, portOf(address)})
	fb := newFirst()
	n.firsts = append(n.firsts, fb)
	serve := n.serve
	n.mu.Unlock()
	cli, srv := net.Pipe()
	go func() {
		br := bufio.NewReader(srv)
		srv.SetReadDeadline(time.Now().Add(3 * time.Second))
		p, _ := br.Peek(1)
		if len(p) > 0 {
			// take whatever arrived with the first write
			time.Sleep(20 * time.Millisecond)
			q, _ := br.Peek(br.Buffered())
			fb.set(q)
		} else {
			fb.set(nil)
		}
		srv.SetReadDeadline(time.Time{})
		if serve != nil {
			serve(id, &prefixConn{Conn: srv, r: br})
			return
		}
		io.Copy(io.Discard, br)
	}()
	return cli, nil
}

type prefixConn struct {
	net.Conn
	r *bufio.Reader
}

func (p *prefixConn) Read(b []byte) (int, error) { return p.r.Read(b) }

type fakeUDP struct {
	transport.UDPConn
	raddr  net.Addr
	fb     *firstBytes
	closed chan struct{}
	once   sync.Once
}

func (u *fakeUDP) Close() error                         { u.once.Do(func() { close(u.closed) }); return nil }
func (u *fakeUDP) LocalAddr() net.Addr                  { return &net.UDPAddr{IP: net.IPv4(127, 0, 0, 1), Port: 40000} }
func (u *fakeUDP) RemoteAddr() net.Addr                 { return u.raddr }
func (u *fakeUDP) SetDeadline(time.Time) error          { return nil }
func (u *fakeUDP) SetReadDeadline(time.Time) error      { return nil }
func (u *fakeUDP) SetWriteDeadline(time.Time) error     { return nil }
func (u *fakeUDP) Write(b []byte) (int, error)          { u.fb.set(b); return len(b), nil }
func (u *fakeUDP) WriteTo(b []byte, _ net.Addr) (int, error) { u.fb.set(b); return len(b), nil }
func (u *fakeUDP) Read(b []byte) (int, error)           { <-u.closed; return 0, io.EOF }
func (u *fakeUDP) ReadFrom(b []byte) (int, net.Addr, error) {
	<-u.closed
	return 0, nil, io.EOF
}

func (n *fakeNet) DialUDP(network string, laddr, raddr *net.UDPAddr) (transport.UDPConn, error) {
	n.mu.Lock()
	n.calls = append(n.calls, dialCall{"DialUDP", network, raddr.String(), portOf(raddr.String())})
	fb := newFirst()
	n.firsts = append(n.firsts, fb)
	n.mu.Unlock()
	return &fakeUDP{raddr: raddr, fb: fb, closed: make(chan struct{})}, nil
}

// classify the first bytes written to an injected connection
func classifyFirst(b []byte) (kind, sni string) {
	switch {
	case len(b) == 0:
		return "none", ""
	case len(b) >= 8 && b[4] == 0x21 && b[5] == 0x12 && b[6] == 0xA4 && b[7] == 0x42:
		return "stun", ""
	case len(b) >= 3 && b[0] == 0x16 && b[1] == 0x03:
		return "tls", clientHelloSNI(b, false)
	case len(b) >= 3 && b[0] == 0x16 && b[1] == 0xfe:
		return "dtls", clientHelloSNI(b, true)
	}
	return "other", ""
}

func clientHelloSNI(b []byte, dtls bool) (sni string) {
	defer func() { recover() }()
	p := 5 + 4
	if dtls {
		p = 13 + 12
	}
	p += 2 + 32
	p += 1 + int(b[p]) // session id
	if dtls {
		p += 1 + int(b[p]) // cookie
	}
	p += 2 + (int(b[p])<<8 | int(b[p+1])) // cipher suites
	p += 1 + int(b[p])                    // compression
	end := p + 2 + (int(b[p])<<8 | int(b[p+1]))
	p += 2
	for p+4 <= end {
		typ := int(b[p])<<8 | int(b[p+1])
		l := int(b[p+2])<<8 | int(b[p+3])
		if typ == 0 {
			q := p + 4 + 2 + 1
			nl := int(b[q])<<8 | int(b[q+1])
			return string(b[q+2 : q+2+nl])
		}
		p += 4 + l
	}
	return ""
}

func schemeOf(s string) stun.SchemeType { return stun.NewSchemeType(s) }
func protoOf(s string) stun.ProtoType   { return stun.NewProtoType(s) }

func dialOnce(scheme, proto, host string, port int) map[string]interface{} {
	fn := &fakeNet{}
	u := &stun.URI{Scheme: schemeOf(scheme), Proto: protoOf(proto), Host: host, Port: port}
	rec := map[string]interface{}{"k": "dial", "scheme": scheme, "proto": proto, "host": host, "port": port,
		"addr": net.JoinHostPort(host, itoa(port)), "portstr": itoa(port)}
	var c *stun.Client
	var err error
	func() {
		defer func() {
			if r := recover(); r != nil {
				err = errors.New("panic")
			}
		}()
		c, err = stun.DialURI(u, &stun.DialConfig{Net: fn})
	}()
	switch {
	case err == nil:
		rec["err"] = "nil"
	case errors.Is(err, stun.ErrUnsupportedURI):
		rec["err"] = "unsupported"
	default:
		rec["err"] = "other:" + err.Error()
	}
	first, sni := "none", ""
	if c != nil {
		go func() {
			defer func() { recover() }()
			c.Indicate(stun.MustBuild(stun.TransactionID, stun.BindingRequest)) //nolint
		}()
		fn.mu.Lock()
		var fb *firstBytes
		if len(fn.firsts) > 0 {
			fb = fn.firsts[0]
		}
		fn.mu.Unlock()
		if fb != nil {
			select {
			case <-fb.done:
				first, sni = classifyFirst(fb.data)
			case <-time.After(3 * time.Second):
			}
		}
		go c.Close() //nolint
	}
	fn.mu.Lock()
	rec["calls"] = append([]dialCall{}, fn.calls...)
	fn.mu.Unlock()
	rec["first"], rec["sni"] = first, sni
	return rec
}

func itoa(n int) string {
	b, _ := json.Marshal(n)
	return string(b)
}

// ---- two secure connections sharing one DialConfig (each must authenticate its own host) ----

func selfSigned(host string) (tls.Certificate, *x509.Certificate) {
	key, _ := ecdsa.GenerateKey(elliptic.P256(), crand.Reader)
	tmpl := &x509.Certificate{SerialNumber: big.NewInt(time.Now().UnixNano()), Subject: pkix.Name{CommonName: host},
		DNSNames: []string{host}, NotBefore: time.Now().Add(-time.Hour), NotAfter: time.Now().Add(time.Hour),
		KeyUsage: x509.KeyUsageDigitalSignature | x509.KeyUsageCertSign, ExtKeyUsage: []x509.ExtKeyUsage{x509.ExtKeyUsageServerAuth},
		IsCA: true, BasicConstraintsValid: true}
	der, _ := x509.CreateCertificate(crand.Reader, tmpl, tmpl, &key.PublicKey, key)
	cert, _ := x509.ParseCertificate(der)
	return tls.Certificate{Certificate: [][]byte{der}, PrivateKey: key}, cert
}

func dialPair(hostA, hostB string, uriA, uriB string) map[string]interface{} {
	certA, xa := selfSigned(hostA)
	certB, xb := selfSigned(hostB)
	pool := x509.NewCertPool()
	pool.AddCert(xa)
	pool.AddCert(xb)
	release := make(chan struct{})
	type hs struct {
		SNI string `json:"sni"`
		OK  bool   `json:"ok"`
	}
	res := make([]hs, 2)
	var wg sync.WaitGroup
	wg.Add(2)
	fn := &fakeNet{}
	fn.serve = func(id int, c net.Conn) {
		defer wg.Done()
		if id > 1 {
			return
		}
		<-release // the server answers only after both connections have been dialled
		cert := certA
		if id == 1 {
			cert = certB
		}
		srv := tls.Server(c, &tls.Config{Certificates: []tls.Certificate{cert}})
		c.SetDeadline(time.Now().Add(3 * time.Second))
		err := srv.Handshake()
		res[id] = hs{SNI: srv.ConnectionState().ServerName, OK: err == nil}
		c.Close()
	}
	cfg := &stun.DialConfig{Net: fn}
	cfg.TLSConfig.RootCAs = pool
	ua, _ := stun.ParseURI(uriA)
	ub, _ := stun.ParseURI(uriB)
	ca, errA := stun.DialURI(ua, cfg)
	cb, errB := stun.DialURI(ub, cfg)
	close(release)
	done := make(chan struct{})
	go func() { wg.Wait(); close(done) }()
	select {
	case <-done:
	case <-time.After(5 * time.Second):
	}
	if ca != nil {
		go ca.Close() //nolint
	}
	if cb != nil {
		go cb.Close() //nolint
	}
	return map[string]interface{}{"k": "dialpair", "a": map[string]interface{}{"host": hostA, "uri": uriA, "dialerr": errA != nil, "hs": res[0]},
		"b": map[string]interface{}{"host": hostB, "uri": uriB, "dialerr": errB != nil, "hs": res[1]},
		"caller_servername": cfg.TLSConfig.ServerName}
}

func TestVerifC17(t *testing.T) {
	tw := newTrace(t)
	defer tw.close()
	if p := os.Getenv("VERIF_VECTORS"); p != "" {
		f, err := os.Open(p)
		if err != nil {
			t.Fatal(err)
		}
		sc := bufio.NewScanner(f)
		sc.Buffer(make([]byte, 1<<20), 1<<26)
		for sc.Scan() {
			var v uriVec
			if err := json.Unmarshal(sc.Bytes(), &v); err != nil {
				t.Fatal(err)
			}
			o := parseOne(v.Text)
			tw.emit(map[string]interface{}{"k": "uri", "s": v.S, "h": v.H, "p": v.P, "q": v.Q, "in": v.Text, "o": o})
			// one mutation of each: only the field constraints apply to whatever is accepted
			for _, mut := range mutateURI(v.Text) {
				tw.emit(map[string]interface{}{"k": "mut", "in": mut, "o": parseOne(mut)})
			}
		}
		f.Close()
	}
	if os.Getenv("VERIF_DIAL") == "" {
		return
	}
	for _, scheme := range []string{"stun", "stuns", "turn", "turns", "bogus"} {
		for _, proto := range []string{"udp", "tcp", "none"} {
			for _, host := range []string{"localhost", "127.0.0.1"} {
				tw.emit(dialOnce(scheme, proto, host, 3478+len(scheme)))
			}
		}
	}
	// every URI ParseURI can produce, dialled
	for _, s := range []string{"stun:localhost", "stuns:localhost", "turn:localhost", "turn:localhost?transport=tcp", "turns:localhost",
		"turns:localhost?transport=udp", "stuns:localhost:7000", "turn:127.0.0.1:80?transport=udp"} {
		u, err := stun.ParseURI(s)
		if err != nil {
			continue
		}
		rec := dialOnce(u.Scheme.String(), u.Proto.String(), u.Host, u.Port)
		rec["from"] = s
		tw.emit(rec)
	}
	tw.emit(dialPair("a.example.org", "b.example.org", "turns:a.example.org?transport=tcp", "stuns:b.example.org"))
	tw.emit(dialPair("one.test", "two.test", "stuns:one.test:4000", "turns:two.test:4001?transport=tcp"))
}

func mutateURI(s string) []string {
	out := []string{}
	b := []byte(s)
	for i, c := range b {
		if c == ':' {
			out = append(out, s[:i]+"::"+s[i+1:]) // doubled separator
			break
		}
	}
	for i, c := range b {
		if c == ']' {
			out = append(out, s[:i]+s[i+1:]) // dropped bracket
			break
		}
	}
	up := []byte(s)
	for i := range up {
		if up[i] >= 'a' && up[i] <= 'z' && i%2 == 0 {
			up[i] -= 32
		}
	}
	out = append(out, string(up))
	return out
}
