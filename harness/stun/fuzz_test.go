//go:build verif

package stun_test

import (
	"bytes"
	"os"
	"path/filepath"
	"strconv"
	"strings"
	"testing"

	"github.com/pion/stun/v3"
)

// FuzzVerifDecode is used purely as a coverage-guided *input generator* for C01/C02: it never fails (panics are
// recovered), so nothing is ever written to testdata; the interesting inputs the fuzzer keeps in its cache
// directory are dumped by TestVerifCorpusDump and then go through the ordinary recorded decode driver.
func FuzzVerifDecode(f *testing.F) {
	f.Add([]byte{0, 1, 0, 0, 0x21, 0x12, 0xA4, 0x42, 1, 2, 3, 4, 5, 6, 7, 8, 9, 10, 11, 12})
	f.Add([]byte("\x00\x01\x00\x08\x21\x12\xa4\x42abcdefghijkl\x80\x22\x00\x03abc\x00"))
	f.Fuzz(func(t *testing.T, data []byte) {
		defer func() { recover() }() //nolint
		m := new(stun.Message)
		if err := stun.Decode(data, m); err != nil {
			return
		}
		_, _ = m.Get(stun.AttrSoftware)
		_ = m.Contains(stun.AttrFingerprint)
		m2 := new(stun.Message)
		_ = m.CloneTo(m2)
		_, _ = m2.ReadFrom(bytes.NewReader(data))
	})
}

// TestVerifCorpusDump converts the fuzz cache (VERIF_FUZZ_CACHE) into replay vectors for TestVerifWire.
func TestVerifCorpusDump(t *testing.T) {
	dir := os.Getenv("VERIF_FUZZ_CACHE")
	if dir == "" {
		t.Skip()
	}
	tw := newTrace(t)
	defer tw.close()
	_ = filepath.Walk(dir, func(p string, info os.FileInfo, err error) error {
		if err != nil || info.IsDir() {
			return nil
		}
		b, err := os.ReadFile(p)
		if err != nil {
			return nil
		}
		for _, ln := range strings.Split(string(b), "\n") {
			if strings.HasPrefix(ln, "[]byte(") && strings.HasSuffix(ln, ")") {
				if s, err := strconv.Unquote(ln[len("[]byte(") : len(ln)-1]); err == nil && len(s) <= 70000 {
					tw.emit(map[string]interface{}{"raw": ints([]byte(s)), "spare": len(s) % 7})
				}
			}
		}
		return nil
	})
}
