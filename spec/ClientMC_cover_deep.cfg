SPECIFICATION Spec
CONSTANTS
  s1 = s1
  s2 = s2
  o1 = o1
  o2 = o2
  w1 = w1
  w2 = w2
  None = None
  Starts = {s1}
  IdOf <- IdOfDef
  Objs = {o1}
  MaxAttempts = 7
  MaxClock = 80
  FailBudget = 1
  RespBudget = 0
  JunkBudget = 0
  CloseConn = TRUE
  HasFallback = TRUE
  AllowClose = FALSE
  AllowDo = TRUE
  AllowIndicate = TRUE
  WObjs = {w1}
  DupMode = FALSE
  DupStart = s2
  PoolOnError = FALSE
  IdleCollects = 1
  RtoChanges = 2
  DeadlineTicks = TRUE
  OneAtATime = FALSE
  SafePool = FALSE
  Strict = FALSE
VIEW View
INVARIANT TypeOK
INVARIANT AtMostOnce
INVARIANT WritesBounded
INVARIANT RoutedByID
INVARIANT ConnOwnership
INVARIANT GoroutinesGone
INVARIANT DoNotStuck
INVARIANT NoPanic
INVARIANT IndicationsAreNotTransactions
PROPERTY ClosedStartsRefused
PROPERTY RtoSnapshot
ACTION_CONSTRAINT PrintEdge
CHECK_DEADLOCK FALSE
