----------------------------- MODULE AllocTrace -----------------------------
(***************************************************************************)
(* Trace validation for C20: testing.AllocsPerRun of each hot-path         *)
(* operation after the Message and the destination values were used for a  *)
(* message at least as large (shapes and pairs enumerated by Alloc.tla).   *)
(* R: zero allocations.  I: allocations occur exactly where Alloc.tla says *)
(* the design must allocate.                                               *)
(***************************************************************************)
EXTENDS TraceBase
VARIABLE l
Init == RegInit /\ l = 1
Next == /\ l <= NLines
        /\ LET e == Trace[l] IN
           /\ Require(e.allocs = 0, l, "allocates-when-warm",
                      [op |-> e.op, allocs |-> e.allocs, spare_lt_20 |-> e.spare < 20, unknown_entries_gt_20 |-> e.unk > 20,
                       measured |-> e.m, warm |-> e.w])
           /\ Expect((e.allocs > 0) = (IF e.op = "integrity_check" THEN e.spare < 20 ELSE e.must), l, "alloc-model",
                     [op |-> e.op, allocs |-> e.allocs, must |-> e.must, spare |-> e.spare])
        /\ Consumed(l)
        /\ l' = l + 1
Spec == Init /\ [][Next]_l
=============================================================================
