------------------------------ MODULE Message ------------------------------
(***************************************************************************)
(* stun.Message (message.go) as the implementation shapes it: the struct   *)
(* fields (Type, Length, TransactionID, Attributes) and the buffer Raw     *)
(* with its retained storage.  `spare` is the content of the backing array *)
(* between len(Raw) and cap(Raw): bytes that dropped out of Raw on Reset / *)
(* Encode / re-slicing stay there and are re-exposed when grow() re-slices *)
(* within capacity.  Operations are pure step functions (state, args) ->   *)
(* state written the way message.go does them (Add's first = 20 + Length,  *)
(* the truncating re-slice, explicit zeroing of padding, the temporary     *)
(* length rewrite of the integrity/fingerprint setters).                   *)
(***************************************************************************)
EXTENDS StunWire

\* attribute of the struct: [type, len, val]
A(t, n, v) == [type |-> t, len |-> n, val |-> v]

Msg(method, class, length, tid, attrs, raw, spare) ==
  [method |-> method, class |-> class, length |-> length, tid |-> tid, attrs |-> attrs, raw |-> raw, spare |-> spare]

\* new(Message): everything zero, no storage
NewMsg == Msg(0, 0, 0, Zeros(12), <<>>, <<>>, <<>>)

Cap(m) == Len(m.raw) + Len(m.spare)

\* m.Raw = m.Raw[:n] for n <= cap
Reslice(m, n) ==
  IF n <= Len(m.raw)
  THEN [m EXCEPT !.raw = SubSeq(m.raw, 1, n), !.spare = SubSeq(m.raw, n + 1, Len(m.raw)) \o m.spare]
  ELSE [m EXCEPT !.raw = m.raw \o SubSeq(m.spare, 1, n - Len(m.raw)),
                 !.spare = SubSeq(m.spare, n - Len(m.raw) + 1, Len(m.spare))]

\* grow(n): re-slice within capacity (old bytes become visible), else append zeroed bytes (new array:
\* whatever capacity the allocator adds is zero and is not modelled)
Grow(m, n) ==
  IF Len(m.raw) >= n THEN m
  ELSE IF Cap(m) >= n THEN Reslice(m, n)
  ELSE [m EXCEPT !.raw = m.raw \o Zeros(n - Len(m.raw)), !.spare = <<>>]

\* overwrite bytes of raw starting at 0-based offset off
Put(raw, off, bytes) ==
  [i \in 1..Len(raw) |-> IF i > off /\ i <= off + Len(bytes) THEN bytes[i - off] ELSE raw[i]]

Reset(m) == [Reslice(m, 0) EXCEPT !.length = 0, !.attrs = <<>>]

WriteLength(m) == LET g == Grow(m, 4) IN [g EXCEPT !.raw = Put(g.raw, 2, U16Bytes(m.length % 65536))]
WriteType(m)   == LET g == Grow(m, 2) IN [g EXCEPT !.raw = Put(g.raw, 0, U16Bytes(TypeValue(m.method % 4096, m.class % 4)))]

WriteHeader(m) ==
  LET g == WriteLength(WriteType(Grow(m, 20)))
  IN [g EXCEPT !.raw = Put(Put(g.raw, 4, << 33, 18, 164, 66 >>), 8, m.tid)]

SetType(m, method, class) == WriteType([m EXCEPT !.method = method, !.class = class])

\* TransactionID setters: field + WriteTransactionID (requires the header to exist)
SetTID(m, tid) == [m EXCEPT !.tid = tid, !.raw = Put(m.raw, 8, tid)]

\* Add(t, v)
Add(m, t, v) ==
  LET first == 20 + m.length
      last  == first + 4 + Len(v)
      g1    == Reslice(Grow(m, last), last)
      tlv   == U16Bytes(t) \o U16Bytes(Len(v) % 65536) \o v
      g2    == [g1 EXCEPT !.raw = Put(g1.raw, first, tlv), !.length = m.length + 4 + Len(v)]
      pad   == PadLen(Len(v))
      g3    == IF pad = 0 THEN g2
               ELSE LET h == Reslice(Grow(g2, last + pad), last + pad)
                    IN [h EXCEPT !.raw = Put(h.raw, last, Zeros(pad)), !.length = g2.length + pad]
  IN WriteLength([g3 EXCEPT !.attrs = Append(m.attrs, A(t, Len(v) % 65536, v))])

\* WriteAttributes: re-add every attribute of the struct
RECURSIVE AddAll(_, _)
AddAll(m, as) == IF as = <<>> THEN m ELSE AddAll(Add(m, Head(as).type, Head(as).val), Tail(as))

Encode(m) ==
  LET h == WriteHeader(Reslice(m, 0))
  IN AddAll([h EXCEPT !.length = 0, !.attrs = <<>>], m.attrs)

\* Decode(data, m) / Write / UnmarshalBinary / CloneTo: copy into the retained storage, then parse.
\* (only successful decodes are steps of the model)
CopyIn(m, data) ==
  LET all == m.raw \o m.spare IN
  IF Len(data) <= Len(all)
  THEN [m EXCEPT !.raw = data, !.spare = SubSeq(all, Len(data) + 1, Len(all))]
  ELSE [m EXCEPT !.raw = data, !.spare = <<>>]

Decode(m, data) ==
  LET p == Parse(data)
      c == CopyIn(m, data)
  IN [c EXCEPT !.method = p.method, !.class = p.class, !.length = p.length, !.tid = p.tid,
               !.attrs = [i \in 1..Len(p.attrs) |-> A(p.attrs[i].type, p.attrs[i].len, ValueOf(data, p.attrs[i]))]]

\* integrity / fingerprint setters: value computed over Raw with the length temporarily raised
\* (Mac(key, bytes) and Crc(bytes) are parameters: real HMAC-SHA1/CRC-32 in trace validation,
\*  an injective stand-in in the exhaustive configuration)
HasFingerprint(m) == \E i \in 1..Len(m.attrs) : m.attrs[i].type = 32808

\* (refused - message untouched - once FINGERPRINT is present: RFC 5389 s15.5 wants it last)
AddIntegrity(m, key, Mac(_, _)) ==
  IF HasFingerprint(m) THEN m ELSE
  LET t   == WriteLength([m EXCEPT !.length = m.length + 24])
      mac == Mac(key, t.raw)
      \* the digest is produced by Sum(Raw[len(Raw):]): it lands in the retained bytes behind Raw when
      \* 20 of them are available (and is then copied out before Add overwrites them)
      sp  == IF Len(t.spare) >= 20 THEN mac \o SubSeq(t.spare, 21, Len(t.spare)) ELSE t.spare
  IN Add([t EXCEPT !.length = m.length, !.spare = sp], 8, mac)

AddFingerprint(m, Crc(_)) ==
  LET t == WriteLength([m EXCEPT !.length = m.length + 8]) IN
  Add([t EXCEPT !.length = m.length], 32808, Crc(t.raw))

---------------------------------------------------------------------------
(* Canonical encoding of a parse result (reference encoder, RFC 5389 s6/s15) *)
RECURSIVE EncAttrs(_, _)
EncAttrs(b, as) ==
  IF as = <<>> THEN <<>>
  ELSE U16Bytes(Head(as).type) \o U16Bytes(Head(as).len) \o ValueOf(b, Head(as)) \o Zeros(PadLen(Head(as).len))
       \o EncAttrs(b, Tail(as))

CanonOf(b) ==
  LET p == Parse(b)
      body == EncAttrs(b, p.attrs)
  IN U16Bytes(TypeValue(p.method, p.class)) \o U16Bytes(Len(body)) \o << 33, 18, 164, 66 >> \o p.tid \o body

IsCanonical(b) == Parse(b).ok /\ CanonOf(b) = b

(* The C03 predicate on a state: wire bytes well formed and equal to the struct *)
PaddingZero(b, p) ==
  \A i \in 1..Len(p.attrs) :
    \A k \in 1..PadLen(p.attrs[i].len) : b[p.attrs[i].off + p.attrs[i].len + k] = 0

\* exact = FALSE tolerates bytes after the declared length (a decoded message may carry them until an
\* operation that re-slices Raw drops them)
StructMatchesWireX(m, exact) ==
  LET p == Parse(m.raw) IN
  /\ p.ok
  /\ (exact => p.length = Len(m.raw) - 20)
  /\ p.length = m.length
  /\ p.length % 4 = 0
  /\ p.method = m.method /\ p.class = m.class /\ p.tid = m.tid
  /\ Len(p.attrs) = Len(m.attrs)
  /\ \A i \in 1..Len(p.attrs) :
        /\ p.attrs[i].type = CompatType(m.attrs[i].type)
        /\ p.attrs[i].len = m.attrs[i].len
        /\ ValueOf(m.raw, p.attrs[i]) = m.attrs[i].val

StructMatchesWire(m) == StructMatchesWireX(m, TRUE)

Coherent(m) == StructMatchesWire(m) /\ PaddingZero(m.raw, Parse(m.raw))

=============================================================================
