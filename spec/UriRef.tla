------------------------------- MODULE UriRef -------------------------------
(***************************************************************************)
(* RFC 7064 (stun/stuns) and RFC 7065 (turn/turns) URIs at component       *)
(* level: which component combinations must be accepted (and with which    *)
(* scheme, host, port, transport), which must be rejected, and on which    *)
(* the property is silent ("free": if accepted, the field constraints must *)
(* still hold).  Also String()/round trip and the DialURI plan.            *)
(***************************************************************************)
EXTENDS Integers, Sequences, TLC

SchemeTokens == {"stun", "stuns", "turn", "turns", "http", "STUN", "stunx"}
KnownSchemes == {"stun", "stuns", "turn", "turns"}

\* host tokens: [text in the URI, host the parser must report, kind]
Hosts == { [text |-> "example.org", host |-> "example.org", kind |-> "regname"],
           [text |-> "a", host |-> "a", kind |-> "regname"],
           [text |-> "192.0.2.1", host |-> "192.0.2.1", kind |-> "ipv4"],
           [text |-> "[2001:db8::1]", host |-> "2001:db8::1", kind |-> "ipv6"],
           [text |-> "[::1]", host |-> "::1", kind |-> "ipv6"],
           [text |-> "[fe80::1%25eth0]", host |-> "fe80::1%25eth0", kind |-> "zone"] }

\* port tokens: [text ("none" = no port part), class, value]
Ports == { [text |-> "none", class |-> "absent", val |-> -1],
           [text |-> "0", class |-> "ok", val |-> 0],
           [text |-> "1", class |-> "ok", val |-> 1],
           [text |-> "3478", class |-> "ok", val |-> 3478],
           [text |-> "5349", class |-> "ok", val |-> 5349],
           [text |-> "65535", class |-> "ok", val |-> 65535],
           [text |-> "65536", class |-> "outofrange", val |-> 65536],
           [text |-> "99999", class |-> "outofrange", val |-> 99999],
           [text |-> "-1", class |-> "outofrange", val |-> -1],
           [text |-> "+80", class |-> "free", val |-> 80],
           [text |-> "", class |-> "free", val |-> -1],
           [text |-> "80a", class |-> "free", val |-> -1] }

\* query tokens: [text, class]; transport = "" when the token does not name one
Queries == { [text |-> "", class |-> "absent", transport |-> ""],
             [text |-> "?transport=udp", class |-> "valid", transport |-> "udp"],
             [text |-> "?transport=tcp", class |-> "valid", transport |-> "tcp"],
             [text |-> "?transport=sctp", class |-> "unknown-transport", transport |-> ""],
             [text |-> "?transport=", class |-> "unknown-transport", transport |-> ""],
             [text |-> "?transport=udp&x=1", class |-> "extra-key", transport |-> ""],
             [text |-> "?x=1", class |-> "extra-key", transport |-> ""],
             [text |-> "?transport=udp&transport=tcp", class |-> "free", transport |-> ""],
             [text |-> "?transport=UDP", class |-> "free", transport |-> ""],
             [text |-> "?", class |-> "free", transport |-> ""] }

Assemble(s, h, p, q) == s \o ":" \o h.text \o (IF p.text = "none" THEN "" ELSE ":" \o p.text) \o q.text

DefaultPortOf(s) == IF s \in {"stun", "turn"} THEN 3478 ELSE 5349
DefaultProtoOf(s) == IF s \in {"stun", "turn"} THEN "udp" ELSE "tcp"

\* verdict class of a component combination
Classify(s, h, p, q) ==
  IF s \in {"http", "stunx"} THEN "reject"                       \* unknown scheme
  ELSE IF s = "STUN" THEN "free"                                 \* scheme case: the property is silent
  ELSE IF q.class \in {"unknown-transport", "extra-key"} THEN "reject"
  ELSE IF s \in {"stun", "stuns"} /\ q.class = "valid" THEN "reject"   \* stun/stuns URIs with a query
  ELSE IF p.class = "outofrange" THEN "reject"                   \* every accepted URI has a port in 0..65535
  ELSE IF h.kind = "zone" \/ p.class = "free" \/ q.class = "free" THEN "free"
  ELSE "accept"

Expected(s, h, p, q) ==
  [scheme |-> s, host |-> h.host,
   port |-> IF p.class = "absent" THEN DefaultPortOf(s) ELSE p.val,
   proto |-> IF s \in {"turn", "turns"} /\ q.class = "valid" THEN q.transport ELSE DefaultProtoOf(s)]

\* what every accepted URI must satisfy, whatever the input was
FieldsOK(o) ==
  /\ o.scheme \in KnownSchemes
  /\ o.host # ""
  /\ o.port >= 0 /\ o.port <= 65535
  /\ o.proto \in {"udp", "tcp"}
  /\ (o.scheme = "stun" => o.proto = "udp")
  /\ (o.scheme = "stuns" => o.proto = "tcp")

\* DialURI: what must be dialled for a (scheme, proto) pair; "any" = the property is silent
DialPlan(scheme, proto) ==
  CASE scheme = "stun"  -> IF proto = "udp" THEN "udp" ELSE "any"
    [] scheme = "turn"  -> IF proto = "udp" THEN "udp" ELSE IF proto = "tcp" THEN "tcp" ELSE "any"
    [] scheme = "stuns" -> IF proto = "tcp" THEN "tls" ELSE "unsupported"
    [] scheme = "turns" -> IF proto = "udp" THEN "dtls" ELSE IF proto = "tcp" THEN "tls" ELSE "unsupported"
    [] OTHER -> "any-but-not-secure-in-plaintext"

=============================================================================
