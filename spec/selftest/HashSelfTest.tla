---------------------------- MODULE HashSelfTest ----------------------------
(***************************************************************************)
(* Self test of SHA1, SHA256, MD5 and HMAC against vectors produced by     *)
(* Python's hashlib / hmac (hash_selftest.py).  The vectors are the lines  *)
(* of the NDJSON file named by the environment variable VERIF_TRACE:       *)
(*   {"k":"sha1"|"sha256"|"md5",            "m":[bytes], "d":[digest]}     *)
(*   {"k":"hmac-sha1"|"hmac-sha256", "key":[bytes], "m":[bytes], "d":[..]} *)
(* CRC32 is extended as well only to show that the modules can be used     *)
(* together without name clashes.                                          *)
(***************************************************************************)
EXTENDS SHA1, SHA256, MD5, HMAC, CRC32, TLC, Json, IOUtils

Vectors == ndJsonDeserialize(IOEnv.VERIF_TRACE)

Digest(e) ==
  CASE e.k = "sha1"        -> Sha1(e.m)
    [] e.k = "sha256"      -> Sha256(e.m)
    [] e.k = "md5"         -> Md5(e.m)
    [] e.k = "hmac-sha1"   -> HmacSha1(e.key, e.m)
    [] e.k = "hmac-sha256" -> HmacSha256(e.key, e.m)

\* TRUE iff vector i passes; a failing vector is printed
Check(i) ==
  LET e   == Vectors[i]
      got == Digest(e)
  IN IF got = e.d THEN TRUE
     ELSE PrintT(<< "MISMATCH", i, e.k, "len", Len(e.m), "got", got, "want", e.d >>) /\ FALSE

Failed == { i \in 1..Len(Vectors) : ~Check(i) }

ASSUME PrintT(<< "vectors", Len(Vectors) >>)
ASSUME LET f == Failed IN PrintT(<< "failed", f >>) /\ f = {}

\* trivial one-state spec so that TLC has something to run
VARIABLE done
Init == done = TRUE
Next == UNCHANGED done
=============================================================================
