//go:build verif

package stun_test

import (
	"bufio"
	"encoding/json"
	"fmt"
	"math/rand"
	"os"
	"os/exec"
	"runtime/debug"
	"strings"
	"sync/atomic"
	"testing"
	"time"

	"github.com/pion/stun/v3"
)

// ---- C16: ParseURI in an isolated worker process ---------------------------------------------------------
//
// The supervisor (TestVerifC16) hands batches of inputs to a worker (the same test binary, TestVerifC16Worker).
// The worker writes "B <i>" before and the outcome after every input, so that a worker that dies (stack
// overflow is fatal in Go, not a recoverable panic) or hangs identifies the input it was on.

type uriOut struct {
	Out    string `json:"out"` // ok | err | panic | died | timeout
	Scheme string `json:"scheme"`
	Host   string `json:"host"`
	Port   int    `json:"port"`
	Proto  string `json:"proto"`
	Str    string `json:"str"`
	Back   string `json:"back"` // outcome of ParseURI(u.String()): same | differs | err
	Ns     int64  `json:"-"`
}

func parseOne(s string) (o uriOut) {
	defer func() {
		if r := recover(); r != nil {
			o = uriOut{Out: "panic"}
		}
	}()
	t0 := time.Now()
	u, err := stun.ParseURI(s)
	o.Ns = time.Since(t0).Nanoseconds()
	if err != nil {
		o.Out = "err"
		return o
	}
	o.Out = "ok"
	o.Scheme, o.Host, o.Port, o.Proto, o.Str = u.Scheme.String(), u.Host, u.Port, u.Proto.String(), u.String()
	u2, err2 := stun.ParseURI(u.String())
	switch {
	case err2 != nil:
		o.Back = "err"
	case *u2 == *u:
		o.Back = "same"
	default:
		o.Back = "differs"
	}
	return o
}

func TestVerifC16Worker(t *testing.T) {
	in, out := os.Getenv("VERIF_C16_IN"), os.Getenv("VERIF_C16_OUT")
	if in == "" {
		t.Skip()
	}
	debug.SetMaxStack(4 << 20)
	// a worker never outlives its supervisor, and gives up on an input that keeps it busy for 15 s
	var progress int64
	parent := os.Getppid()
	go func() {
		last, since := int64(-1), time.Now()
		for {
			time.Sleep(250 * time.Millisecond)
			if p := atomic.LoadInt64(&progress); p != last {
				last, since = p, time.Now()
			}
			if os.Getppid() != parent || time.Since(since) > 15*time.Second {
				os.Exit(7)
			}
		}
	}()
	fi, err := os.Open(in)
	if err != nil {
		t.Fatal(err)
	}
	fo, err := os.Create(out)
	if err != nil {
		t.Fatal(err)
	}
	w := bufio.NewWriter(fo)
	sc := bufio.NewScanner(fi)
	sc.Buffer(make([]byte, 1<<20), 1<<28)
	skip := envInt("VERIF_C16_SKIP", 0)
	i := 0
	for sc.Scan() {
		if i < skip {
			i++
			continue
		}
		var s string
		if err := json.Unmarshal(sc.Bytes(), &s); err != nil {
			t.Fatal(err)
		}
		fmt.Fprintf(w, "B %d\n", i)
		w.Flush()
		atomic.AddInt64(&progress, 1)
		o := parseOne(s)
		b, _ := json.Marshal(o)
		fmt.Fprintf(w, "E %d %s\n", i, b)
		i++
	}
	w.Flush()
	fo.Close()
}

// inputs that killed or hung a worker, over all batches of a run (enough is enough: the rest is reported as not run)
var c16BadTotal int

// runIsolated runs ParseURI on every input in worker processes and returns one outcome per input.
func runIsolated(t *testing.T, inputs []string) []uriOut {
	res := make([]uriOut, len(inputs))
	start := 0
	dir := t.TempDir()
	inF, outF := dir+"/in.ndjson", dir+"/out.txt"
	f, _ := os.Create(inF)
	w := bufio.NewWriter(f)
	for _, s := range inputs {
		b, _ := json.Marshal(s)
		w.Write(b)
		w.WriteByte('\n')
	}
	w.Flush()
	f.Close()
	nbad := 0
	for start < len(inputs) {
		if nbad >= 100 || c16BadTotal >= 150 {
			// enough evidence: the rest of the batch is reported as not run
			for i := start; i < len(inputs); i++ {
				res[i] = uriOut{Out: "not-run"}
			}
			break
		}
		os.Remove(outF)
		cmd := exec.Command(os.Args[0], "-test.run", "^TestVerifC16Worker$")
		cmd.Env = append(os.Environ(), "VERIF_C16_IN="+inF, "VERIF_C16_OUT="+outF, "VERIF_TRACE_OUT=",
			fmt.Sprintf("VERIF_C16_SKIP=%d", start))
		done := make(chan error, 1)
		if err := cmd.Start(); err != nil {
			t.Fatal(err)
		}
		go func() { done <- cmd.Wait() }()
		timedOut := false
		lastSize, stale := int64(-1), 0
	wait:
		for {
			select {
			case <-done:
				break wait
			case <-time.After(500 * time.Millisecond):
				st, err := os.Stat(outF)
				sz := int64(0)
				if err == nil {
					sz = st.Size()
				}
				if sz == lastSize {
					stale++
				} else {
					stale, lastSize = 0, sz
				}
				if stale >= 6 { // 3 s without progress on one input
					timedOut = true
					cmd.Process.Kill()
					<-done
					break wait
				}
			}
		}
		// read what the worker managed to do
		begun, ended := -1, -1
		if fo, err := os.Open(outF); err == nil {
			sc := bufio.NewScanner(fo)
			sc.Buffer(make([]byte, 1<<20), 1<<26)
			for sc.Scan() {
				ln := sc.Text()
				var i int
				if strings.HasPrefix(ln, "B ") {
					fmt.Sscanf(ln, "B %d", &i)
					begun = i
				} else if strings.HasPrefix(ln, "E ") {
					sp := strings.SplitN(ln, " ", 3)
					fmt.Sscanf(sp[1], "%d", &i)
					var o uriOut
					json.Unmarshal([]byte(sp[2]), &o)
					res[i] = o
					ended = i
				}
			}
			fo.Close()
		}
		if ended == len(inputs)-1 {
			break
		}
		// the worker stopped on input `begun` (or before starting any): indices are absolute
		culprit := start
		if ended >= start {
			culprit = ended + 1
		}
		if begun > culprit {
			culprit = begun
		}
		if timedOut {
			res[culprit] = uriOut{Out: "timeout"}
		} else {
			res[culprit] = uriOut{Out: "died"}
		}
		nbad++
		c16BadTotal++
		start = culprit + 1
	}
	return res
}

var c16Schemes = []string{"stun", "stuns", "turn", "turns"}

func concretise(r *rand.Rand, abs []string) string {
	var sb strings.Builder
	for _, c := range abs {
		switch c {
		case "a":
			sb.WriteByte("hxbz"[r.Intn(4)])
		case "1":
			sb.WriteByte("123456789"[r.Intn(9)]) // never 0: "-0" is a valid port while "-5" is not, and the abstract digit cannot tell
		default:
			sb.WriteString(c)
		}
	}
	return sb.String()
}

func allStrings(alpha []string, maxLen int, f func([]string)) {
	cur := []string{}
	var rec func()
	rec = func() {
		f(cur)
		if len(cur) == maxLen {
			return
		}
		for _, c := range alpha {
			cur = append(cur, c)
			rec()
			cur = cur[:len(cur)-1]
		}
	}
	rec()
}

func TestVerifC16(t *testing.T) {
	tw := newTrace(t)
	defer tw.close()
	r := newRand(16)
	if p := os.Getenv("VERIF_REPLAY_STRINGS"); p != "" {
		b, _ := os.ReadFile(p)
		var ss []string
		json.Unmarshal(b, &ss)
		for i, o := range runIsolated(t, ss) {
			tw.emit(map[string]interface{}{"k": "uri", "scheme": "", "abs": []string{}, "in": ss[i], "o": o, "replay": true})
		}
		return
	}
	// (a) every abstract string of the specification's alphabet up to the bound, two concrete representatives
	var sigma []string
	json.Unmarshal([]byte(os.Getenv("VERIF_SIGMA")), &sigma)
	maxLen := envInt("VERIF_MAXLEN", 3)
	type item struct {
		scheme string
		abs    []string
		s      string
	}
	items := []item{}
	for _, sch := range append(append([]string{}, c16Schemes...), "http") {
		allStrings(sigma, maxLen, func(abs []string) {
			for rep := 0; rep < 2; rep++ {
				a := append([]string(nil), abs...)
				items = append(items, item{sch, a, sch + ":" + concretise(r, a)})
			}
		})
	}
	ins := make([]string, len(items))
	for i, it := range items {
		ins[i] = it.s
	}
	for i, o := range runIsolated(t, ins) {
		if o.Out == "not-run" {
			continue // the bad-input budget of the run was used up before this input's turn
		}
		tw.emit(map[string]interface{}{"k": "uri", "scheme": items[i].scheme, "abs": items[i].abs, "in": items[i].s, "o": o})
	}
	// (b) native sweep over the property's 20-symbol alphabet (no per-input prediction: summarised per batch)
	alpha20 := strings.Split("a 1 0 : [ ] ? = & / # . - + @ % _ ~ ! ;", " ")
	sweepLen := envInt("VERIF_SWEEPLEN", 4)
	batch := []string{}
	flush := func(kind string) {
		if len(batch) == 0 {
			return
		}
		outs := runIsolated(t, batch)
		bad := []map[string]interface{}{}
		var worst int64
		worstLen := 0
		ret, notRun := 0, 0
		for i, o := range outs {
			if o.Out == "not-run" {
				notRun++
			} else if o.Out == "ok" || o.Out == "err" {
				ret++
			} else {
				bad = append(bad, map[string]interface{}{"s": truncate(batch[i]), "out": o.Out, "len": len(batch[i])})
			}
			if o.Ns > worst {
				worst, worstLen = o.Ns, len(batch[i])
			}
		}
		tw.emit(map[string]interface{}{"k": "batch", "kind": kind, "count": len(batch) - notRun, "returned": ret, "bad": bad,
			"worst_us": worst / 1000, "worst_len": worstLen})
		batch = batch[:0]
	}
	for _, sch := range c16Schemes {
		allStrings(alpha20, sweepLen, func(abs []string) {
			batch = append(batch, sch+":"+strings.Join(abs, ""))
			if len(batch) >= 200000 {
				flush("sweep")
			}
		})
	}
	flush("sweep")
	// (c) random and grammar-mutated strings, non-ASCII, control characters, escapes, very long inputs
	hosts := []string{"example.org", "192.0.2.1", "[2001:db8::1]", "[::1]", "a", "[fe80::1%25eth0]", "xn--bcher-kva.example"}
	n := envInt("VERIF_RANDOM", 20000)
	for i := 0; i < n; i++ {
		s := c16Schemes[r.Intn(4)] + ":" + hosts[r.Intn(len(hosts))]
		if r.Intn(2) == 0 {
			s += ":" + fmt.Sprint(r.Intn(70000))
		}
		if r.Intn(2) == 0 {
			s += "?transport=" + []string{"udp", "tcp", "sctp", ""}[r.Intn(4)]
		}
		b := []byte(s)
		for j, m := 0, r.Intn(4); j < m && len(b) > 0; j++ {
			switch r.Intn(5) {
			case 0:
				b[r.Intn(len(b))] = byte(r.Intn(256))
			case 1:
				p := r.Intn(len(b))
				b = append(b[:p], append([]byte{"[]:%?#&=/@"[r.Intn(10)]}, b[p:]...)...)
			case 2:
				p := r.Intn(len(b))
				b = append(b[:p], b[p+1:]...)
			case 3:
				b = append(b, []byte("é世\x00\x7f%zz%41")[r.Intn(12):]...)
			case 4:
				p := r.Intn(len(b))
				b = append(b[:p], append([]byte("[]"), b[p:]...)...)
			}
		}
		batch = append(batch, string(b))
	}
	flush("random")
	for i := 0; i < envInt("VERIF_LONG", 12); i++ {
		l := 100000 + r.Intn(900000)
		unit := []string{"a", "[", "]", ":", "[]", "a:", "%41", "?x=1&", "[::1]", "/", "#"}[i%11]
		s := "stun:" + strings.Repeat(unit, l/len(unit))
		if i%3 == 0 {
			s = "turns:[" + strings.Repeat("1:", l/2) + "]" + "x"
		}
		batch = append(batch, s)
	}
	flush("long")
}

func truncate(s string) string {
	if len(s) > 200 {
		return s[:200] + fmt.Sprintf("...(%d bytes)", len(s))
	}
	return s
}
