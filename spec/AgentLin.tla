------------------------------ MODULE AgentLin ------------------------------
(***************************************************************************)
(* C14: TLC as linearizability checker for recorded concurrent histories   *)
(* of the real Agent.  Trace lines, in the order of a global atomic stamp  *)
(* taken before a call starts and after it returns:                        *)
(*   {"k":"new","n":ids,"h":1}                     fresh agent, new segment *)
(*   {"k":"inv","g":g,"par":p,"op":..,args}        call invoked by g        *)
(*                          (par = goroutine whose handler issues the call,  *)
(*                           0 for a top-level call)                        *)
(*   {"k":"ret","g":g,"res":..,"evs":[..]}         call returned            *)
(*   {"k":"race"|"stuck", ...}                      reported by the harness  *)
(* Internal action Linearize(g) applies the pending call of g to the        *)
(* sequential specification (AgentCore) and stores the predicted result;    *)
(* Return is possible only if prediction = observation.  A nested call (a   *)
(* handler calling back into the agent) can be invoked only after its       *)
(* parent was linearized: handlers run after the critical section.          *)
(* Linearization is just-in-time: a pending call is linearized only when    *)
(* the next line needs it (a return, or a nested invocation).  Postponing   *)
(* a linearization point loses no witness.  TLC searches the orders; the    *)
(* history is linearizable iff some behaviour consumes every line.          *)
(***************************************************************************)
EXTENDS TraceBase, AgentCore, FiniteSets

VARIABLES l, ag, pend     \* pend: g -> [op, lin, res, evs]

Init == RegInit /\ l = 1 /\ ag = InitAgOver({}, None) /\ pend = << >>

Gs == DOMAIN pend
NextLine == Trace[l]

Outcome(c) ==
  CASE c.op = "start"      -> StartF(ag, c.id, c.d)
    [] c.op = "stop"       -> StopF(ag, c.id, "stopped")
    [] c.op = "stoperr"    -> StopF(ag, c.id, "custom")
    [] c.op = "process"    -> ProcessF(ag, c.id)
    [] c.op = "collect"    -> CollectF(ag, c.t)
    [] c.op = "sethandler" -> SetHandlerF(ag, c.h)
    [] c.op = "close"      -> CloseF(ag)

Done == l > NLines

\* consume a "new" line: a fresh agent; every call of the previous segment has returned
NewSeg ==
  /\ ~Done /\ NextLine.k = "new" /\ pend = << >>
  /\ ag' = InitAgOver(1..NextLine.n, NextLine.h)
  /\ UNCHANGED pend

Invoke ==
  /\ ~Done /\ NextLine.k = "inv"
  /\ NextLine.g \notin Gs
  /\ (NextLine.par # 0) => (NextLine.par \in Gs /\ pend[NextLine.par].lin)
  /\ pend' = [g \in Gs \cup {NextLine.g} |->
                IF g = NextLine.g THEN [op |-> NextLine, lin |-> FALSE, res |-> "", evs |-> {}] ELSE pend[g]]
  /\ UNCHANGED ag

NeedsLinearization ==
  /\ ~Done
  /\ \/ NextLine.k = "ret" /\ NextLine.g \in Gs /\ ~pend[NextLine.g].lin
     \/ NextLine.k = "inv" /\ NextLine.par # 0 /\ NextLine.par \in Gs /\ ~pend[NextLine.par].lin

Linearize(g) ==
  /\ NeedsLinearization
  /\ g \in Gs /\ ~pend[g].lin
  /\ LET o == Outcome(pend[g].op) IN
     /\ ag' = [tab |-> o.tab, closed |-> o.closed, handler |-> o.handler]
     /\ pend' = [pend EXCEPT ![g] = [@ EXCEPT !.lin = TRUE, !.res = o.res, !.evs = o.evs]]
  /\ UNCHANGED l

Obs(e) == { Ev(e.evs[i].h, e.evs[i].id, e.evs[i].kind) : i \in 1..Len(e.evs) }

Return ==
  /\ ~Done /\ NextLine.k = "ret"
  /\ NextLine.g \in Gs /\ pend[NextLine.g].lin
  /\ pend[NextLine.g].res = NextLine.res
  /\ pend[NextLine.g].evs = Obs(NextLine)
  /\ Cardinality(Obs(NextLine)) = Len(NextLine.evs)
  /\ pend' = [g \in Gs \ {NextLine.g} |-> pend[g]]
  /\ UNCHANGED ag

\* events reported by the harness itself are rejections; the search goes on
Reported ==
  /\ ~Done /\ NextLine.k \in {"race", "stuck"}
  /\ Reject(l, IF NextLine.k = "race" THEN "data-race" ELSE "stuck-goroutines", NextLine.report)
  /\ UNCHANGED << ag, pend >>

Consume(A) == A /\ Consumed(l) /\ l' = l + 1

\* reaching the end is the witness: write the verdict and stop the search
Finished ==
  /\ Done
  /\ JsonSerialize(IOEnv.VERIF_OUT, [lines |-> NLines, reached |-> NLines, rejects |-> TLCGet(2), drift |-> TLCGet(3)])
  /\ TLCSet("exit", TRUE)
  /\ UNCHANGED << l, ag, pend >>

Next == \/ Consume(NewSeg) \/ Consume(Invoke) \/ Consume(Return) \/ Consume(Reported)
        \/ \E g \in Gs : Linearize(g)
        \/ Finished

Spec == Init /\ [][Next]_<< l, ag, pend >>
=============================================================================
