//go:build verif

package stun_test

import (
	"bufio"
	"encoding/json"
	"errors"
	"math/rand"
	"net"
	"os"
	"testing"

	"github.com/pion/stun/v3"
)

type setScen struct {
	Setter string `json:"setter"`
	Ctx    string `json:"ctx"`
}

type setArg struct {
	Setter string `json:"setter"`
	N      int    `json:"n"` // text/reason/ip length, or error code
}

func errClass(err error) string {
	switch {
	case err == nil:
		return "nil"
	case stun.IsAttrSizeOverflow(err):
		return "overflow"
	case errors.Is(err, stun.ErrBadIPLength):
		return "badip"
	case errors.Is(err, stun.ErrNoDefaultReason):
		return "noreason"
	case errors.Is(err, stun.ErrFingerprintBeforeIntegrity):
		return "fpbefore"
	}
	return "other:" + err.Error()
}

func mkSetter(r *rand.Rand, a setArg) stun.Setter {
	switch a.Setter {
	case "username":
		return stun.Username(randBytes(r, a.N))
	case "realm":
		return stun.Realm(randBytes(r, a.N))
	case "nonce":
		return stun.Nonce(randBytes(r, a.N))
	case "software":
		return stun.Software(randBytes(r, a.N))
	case "reason":
		return stun.ErrorCodeAttribute{Code: stun.ErrorCode(300 + r.Intn(400)), Reason: randBytes(r, a.N)}
	case "xorip":
		return stun.XORMappedAddress{IP: ipBytes(r, a.N), Port: r.Intn(65536)}
	case "mappedip":
		return &stun.MappedAddress{IP: ipBytes(r, a.N), Port: r.Intn(65536)}
	case "altserver":
		return &stun.AlternateServer{IP: ipBytes(r, a.N), Port: r.Intn(65536)}
	case "origin":
		return &stun.ResponseOrigin{IP: ipBytes(r, a.N), Port: r.Intn(65536)}
	case "other":
		return &stun.OtherAddress{IP: ipBytes(r, a.N), Port: r.Intn(65536)}
	case "errorcode":
		return stun.ErrorCode(a.N)
	case "integrity":
		return stun.MessageIntegrity(randBytes(r, a.N%40))
	case "raw":
		return stun.RawAttribute{Type: stun.AttrType(0x30 + r.Intn(8)), Value: randBytes(r, a.N)}
	case "fingerprint":
		return stun.Fingerprint
	}
	panic("setter " + a.Setter)
}

// ipFill selects what an IP argument of a given length is made of (the length alone decides acceptance)
var ipFill int

func ipBytes(r *rand.Rand, n int) net.IP {
	b := randBytes(r, n)
	switch ipFill % 4 {
	case 1: // starts like an IPv4-mapped IPv6 address
		for i := 0; i < n && i < 12; i++ {
			b[i] = 0
			if i >= 10 {
				b[i] = 0xff
			}
		}
	case 2:
		for i := range b {
			b[i] = 0
		}
	case 3:
		for i := range b {
			b[i] = 0xff
		}
	}
	return net.IP(b)
}

func ctxMessage(r *rand.Rand, ctx string) *stun.Message {
	m := new(stun.Message)
	m.Raw = make([]byte, 0, 16+r.Intn(2000))
	ss := []stun.Setter{stun.NewType(stun.Method(r.Intn(4096)), stun.MessageClass(r.Intn(4))), stun.TransactionID}
	raw := func() stun.Setter {
		return stun.RawAttribute{Type: stun.AttrType(0x30 + r.Intn(8)), Value: randBytes(r, r.Intn(13))}
	}
	switch ctx {
	case "empty":
	case "one":
		ss = append(ss, raw())
	case "three":
		ss = append(ss, raw(), raw(), raw())
	case "fp":
		ss = append(ss, raw(), stun.Fingerprint)
	case "fp-then-attr":
		ss = append(ss, stun.Fingerprint, raw())
	}
	if err := m.Build(ss...); err != nil {
		panic(err)
	}
	return m
}

func emitSet(tw *traceWriter, r *rand.Rand, a setArg, ctx string) {
	m := ctxMessage(r, ctx)
	s := mkSetter(r, a)
	before := snap(m)
	var err error
	pan := ""
	func() {
		defer func() {
			if x := recover(); x != nil {
				pan = "panic"
			}
		}()
		err = s.AddTo(m)
	}()
	cls := errClass(err)
	if pan != "" {
		cls = "panic"
	}
	tw.emit(map[string]interface{}{"k": "set", "setter": a.Setter, "n": a.N, "ctx": ctx, "err": cls,
		"before": before, "after": snap(m)})
}

func textLens(limit int, full bool) []int {
	out := []int{}
	for n := 0; n <= limit+300; n++ {
		if full || n <= 8 || (n >= limit-8 && n <= limit+8) || n%41 == 0 || n == limit+300 {
			out = append(out, n)
		}
	}
	return out
}

func TestVerifC09(t *testing.T) {
	tw := newTrace(t)
	defer tw.close()
	r := newRand(9)
	full := thorough()
	f, err := os.Open(os.Getenv("VERIF_VECTORS"))
	if err != nil {
		t.Fatal(err)
	}
	defer f.Close()
	sc := bufio.NewScanner(f)
	for sc.Scan() {
		line := sc.Bytes()
		var rp struct {
			Replay *setArg `json:"replay"`
			Ctx    string  `json:"ctx"`
		}
		if json.Unmarshal(line, &rp) == nil && rp.Replay != nil {
			for i := 0; i < 20; i++ {
				emitSet(tw, r, *rp.Replay, rp.Ctx)
			}
			continue
		}
		var s setScen
		if err := json.Unmarshal(line, &s); err != nil {
			t.Fatal(err)
		}
		switch s.Setter {
		case "username":
			for _, n := range textLens(513, full) {
				emitSet(tw, r, setArg{s.Setter, n}, s.Ctx)
			}
		case "realm", "nonce", "software", "reason":
			for _, n := range textLens(763, full) {
				emitSet(tw, r, setArg{s.Setter, n}, s.Ctx)
			}
		case "xorip", "mappedip", "altserver", "origin", "other":
			for n := 0; n <= 36; n++ {
				for ipFill = 0; ipFill < 4; ipFill++ {
					emitSet(tw, r, setArg{s.Setter, n}, s.Ctx)
				}
			}
			ipFill = 0
		case "errorcode":
			for code := 0; code <= 999; code++ {
				if full || s.Ctx == "one" || code%7 == 0 {
					emitSet(tw, r, setArg{s.Setter, code}, s.Ctx)
				}
			}
		case "integrity":
			for n := 0; n < 6; n++ {
				emitSet(tw, r, setArg{s.Setter, n * 13}, s.Ctx)
			}
		}
	}
	// Build stops at, and returns the error of, the first failing setter
	nb := 400
	if full {
		nb = 6000
	}
	good := []setArg{{"username", 10}, {"realm", 763}, {"software", 0}, {"xorip", 4}, {"mappedip", 16}, {"errorcode", 438},
		{"raw", 5}, {"reason", 763}, {"nonce", 1}, {"integrity", 8}, {"fingerprint", 0}}
	bad := []setArg{{"username", 514}, {"realm", 764}, {"nonce", 1000}, {"software", 764}, {"xorip", 5}, {"mappedip", 0},
		{"errorcode", 666}, {"reason", 764}, {"xorip", 15}, {"errorcode", 299}, {"other", 18}, {"origin", 20}, {"altserver", 17}}
	for i := 0; i < nb; i++ {
		n := 1 + r.Intn(6)
		list := make([]setArg, n)
		for j := range list {
			list[j] = good[r.Intn(len(good))]
		}
		nbad := r.Intn(3)
		for j := 0; j < nbad; j++ {
			list[r.Intn(n)] = bad[r.Intn(len(bad))]
		}
		setters := make([]stun.Setter, n)
		ipFill = i
		for j, a := range list {
			setters[j] = mkSetter(r, a)
		}
		m := new(stun.Message)
		if i%2 == 0 {
			m = ctxMessage(r, "three") // Build resets whatever was there
		}
		err := m.Build(setters...)
		types := []int{}
		for _, a := range m.Attributes {
			types = append(types, int(a.Type))
		}
		_, decOK := decodeCopy(m.Raw, 0)
		tw.emit(map[string]interface{}{"k": "build", "list": list, "err": errClass(err), "types": types,
			"decodable": decOK, "rawlen": len(m.Raw), "length": int(m.Length)})
	}
}
