SPECIFICATION Spec
CONSTANTS
  k1 = k1
  k2 = k2
  k3 = k3
  o1 = o1
  o2 = o2
  ca = ca
  cb = cb
  NoKey = NoKey
  Keys = {k1, k2, k3}
  Objs = {o1}
  Chunks = {ca, cb}
  MaxData = 2
VIEW View
INVARIANT SumIsHmac
ACTION_CONSTRAINT PrintEdge
CHECK_DEADLOCK FALSE
