//go:build verif

package stun_test

import (
	"bytes"
	"errors"
	"fmt"
	"io"
	"runtime"
	"strings"
	"sync"
	"sync/atomic"
	"time"

	"github.com/pion/stun/v3"
)

// ---- gate controller: parks every goroutine of a real Client at the injected interfaces -----------------
//
// Every call the client makes into an injected interface (agent wrapper, wrapped agent handler, connection,
// clock, collector, user/fallback handlers) is a gate: the calling goroutine reports its arrival and blocks
// until the scheduler releases it.  With all goroutines but one parked, a released goroutine runs exactly one
// gate-to-gate segment of client.go / agent.go, which is one action of spec/Client.tla.

type gateResp struct {
	fail bool   // conn.Write: fail this write
	data []byte // conn.Read: datagram to return
	err  error  // conn.Read: error to return
	stop bool   // collector idle gate: stop the collector goroutine
	now  int64  // collector idle gate: call f(now)
}

type gateArr struct {
	proc    string
	name    string
	info    map[string]interface{}
	release chan gateResp
}

type gctl struct {
	mu       sync.Mutex
	procs    map[int64]string // goroutine id -> logical process
	arrivals chan *gateArr
	finished chan string
	parked   map[string]*gateArr
	free     bool // free-running mode: gates do not block
	clock    int64
	log      func(map[string]interface{})
	inbox    []byte
	hasInbox bool
	connDown bool
}

func newGctl(logf func(map[string]interface{})) *gctl {
	return &gctl{procs: map[int64]string{}, arrivals: make(chan *gateArr, 64), finished: make(chan string, 64),
		parked: map[string]*gateArr{}, log: logf}
}

func (c *gctl) register(name string) {
	c.mu.Lock()
	c.procs[goid()] = name
	c.mu.Unlock()
}

func (c *gctl) procName() string {
	c.mu.Lock()
	defer c.mu.Unlock()
	g := goid()
	if n, ok := c.procs[g]; ok {
		return n
	}
	return fmt.Sprintf("g%d", g)
}

func (c *gctl) arrive(name string, info map[string]interface{}) gateResp {
	p := c.procName()
	c.mu.Lock()
	free := c.free
	c.mu.Unlock()
	if free {
		return gateResp{}
	}
	a := &gateArr{proc: p, name: name, info: info, release: make(chan gateResp, 1)}
	c.arrivals <- a
	return <-a.release
}

// clientGates: which gate controller a client's verif hook (stun.SetVerifGate) reports to. The hook makes the entry
// of Client.start - the client-table registration, a critical section no injected interface can see - a gate.
var clientGates sync.Map // *stun.Client -> *gctl

func init() {
	stun.SetVerifGate(func(c *stun.Client, name string) {
		if g, ok := clientGates.Load(c); ok {
			g.(*gctl).arrive(name, nil)
		}
	})
}

// ---- injected pieces ----

var errInjectedWrite = errors.New("injected write failure")

type gConn struct {
	closeErr error
	c        *gctl
	mu       sync.Mutex
	closed   bool
	closeCh  chan struct{}
	// free-running mode
	inQ       chan []byte
	outQ      chan []byte
	failEvery int
	nwrites   int32
}

func (g *gConn) Write(b []byte) (int, error) {
	raw := append([]byte(nil), b...)
	r := g.c.arrive("conn.Write", map[string]interface{}{"raw": raw})
	ok := !r.fail
	if g.outQ != nil {
		n := atomic.AddInt32(&g.nwrites, 1)
		if g.failEvery > 0 && int(n)%g.failEvery == 0 {
			ok = false
		}
	}
	g.c.log(map[string]interface{}{"k": "write", "p": g.c.procName(), "id": idOfRaw(raw), "raw": ints(raw), "t": g.c.now(), "ok": ok})
	if !ok {
		return 0, errInjectedWrite
	}
	if g.outQ != nil {
		select {
		case g.outQ <- raw:
		default:
		}
	}
	return len(b), nil
}

func (g *gConn) Read(b []byte) (int, error) {
	g.c.mu.Lock()
	if _, known := g.c.procs[goid()]; !known {
		g.c.procs[goid()] = "RD"
	}
	free := g.c.free
	g.c.mu.Unlock()
	if free {
		g.c.log(map[string]interface{}{"k": "read", "p": g.c.procName()})
		select {
		case d := <-g.inQ:
			n := copy(b, d)
			g.c.log(map[string]interface{}{"k": "read_ret", "p": g.c.procName(), "n": n, "id": idOfRaw(d), "raw": ints(d[:n])})
			return n, nil
		case <-g.closeCh:
			time.Sleep(100 * time.Microsecond) // the reader loops on this error until Close is through
			return 0, io.EOF
		}
	}
	g.c.log(map[string]interface{}{"k": "read", "p": g.c.procName()})
	r := g.c.arrive("conn.Read", nil)
	if r.err != nil {
		return 0, r.err
	}
	n := copy(b, r.data)
	g.c.log(map[string]interface{}{"k": "read_ret", "p": g.c.procName(), "n": n, "id": idOfRaw(r.data), "raw": ints(r.data[:n])})
	return n, nil
}

func (g *gConn) Close() error {
	g.c.arrive("conn.Close", nil)
	g.mu.Lock()
	first := !g.closed
	g.closed = true
	g.mu.Unlock()
	if first {
		close(g.closeCh)
	}
	g.c.log(map[string]interface{}{"k": "conn_close", "p": g.c.procName()})
	return g.closeErr
}

type gClock struct{ c *gctl }

func (k gClock) Now() time.Time {
	k.c.arrive("clock.Now", nil)
	t := k.c.now()
	k.c.log(map[string]interface{}{"k": "now", "p": k.c.procName(), "t": t})
	return vtime(t)
}

func (c *gctl) now() int64 {
	c.mu.Lock()
	defer c.mu.Unlock()
	return c.clock
}

// virtual time: 1 model clock unit = 1 second; RTO = 1 unit
func vtime(t int64) time.Time { return time.Unix(2000000+t, 0) }

type gCollector struct {
	once sync.Once
	c    *gctl
	done chan struct{}
	stop chan struct{}
}

func (g *gCollector) Start(_ time.Duration, f func(now time.Time)) error {
	g.done = make(chan struct{})
	g.stop = make(chan struct{})
	go func() {
		g.c.register("CL")
		defer func() {
			g.c.log(map[string]interface{}{"k": "exit", "p": "CL"})
			close(g.done)
			g.c.finished <- "CL"
		}()
		for {
			g.c.mu.Lock()
			free := g.c.free
			g.c.mu.Unlock()
			if free {
				select {
				case <-g.stop:
					return
				case <-time.After(2 * time.Millisecond):
					f(vtime(g.c.now()))
				}
				continue
			}
			r := g.c.arrive("cl.idle", nil)
			if r.stop {
				return
			}
			f(vtime(r.now))
		}
	}()
	return nil
}

func (g *gCollector) Close() error {
	g.c.arrive("collector.Close", nil)
	// like tickerCollector: signal, then wait for the goroutine. The collector goroutine may be busy when Close is
	// called (only off the model's behaviours: the model has Close wait here until it is idle), and the run may
	// switch to free running meanwhile: keep signalling until the goroutine is gone.
	for {
		g.c.mu.Lock()
		free := g.c.free
		a := g.c.parked["CL"]
		if !free && a != nil && a.name == "cl.idle" {
			delete(g.c.parked, "CL")
		} else {
			a = nil
		}
		g.c.mu.Unlock()
		if free {
			g.once.Do(func() { close(g.stop) })
		} else if a != nil {
			a.release <- gateResp{stop: true}
		}
		select {
		case <-g.done:
			return nil
		case <-time.After(500 * time.Microsecond):
		}
	}
}

// gAgent delegates to a real Agent; every method entry and the wrapped handler's entry/exit are gates.
// It also keeps the agent's own history - every call with its result and the events the agent emitted during it,
// numbered at entry - so that the Agent part of a client run can be checked against AgentCore (AgentTrace).
type gAgent struct {
	c        *gctl
	a        *stun.Agent
	closeErr error

	hmu    sync.Mutex
	seq    int
	calls  []*agentCall
	active map[int64][]*agentCall // goroutine -> agent calls in progress (innermost last)
}

type agentCall struct {
	Seq  int       `json:"seq"`
	Op   string    `json:"op"`
	ID   int       `json:"id"`
	D    int64     `json:"d"`
	T    int64     `json:"t"`
	H    int       `json:"h"`
	Res  string    `json:"res"`
	Evs  []agEvent `json:"evs"`
	done bool
}

func agentID(id [stun.TransactionIDSize]byte) int {
	if k := idIndex(id); k == 1 || k == 2 {
		return k
	}
	return 3 // every other id
}

func (g *gAgent) begin(op string, id int, d, t int64, h int) *agentCall {
	g.hmu.Lock()
	defer g.hmu.Unlock()
	if g.active == nil {
		g.active = map[int64][]*agentCall{}
	}
	g.seq++
	c := &agentCall{Seq: g.seq, Op: op, ID: id, D: d, T: t, H: h, Evs: []agEvent{}}
	g.calls = append(g.calls, c)
	gid := goid()
	g.active[gid] = append(g.active[gid], c)
	return c
}

func (g *gAgent) end(c *agentCall, err error) {
	g.hmu.Lock()
	defer g.hmu.Unlock()
	c.Res, c.done = agResult(err), true
	gid := goid()
	if st := g.active[gid]; len(st) > 0 {
		g.active[gid] = st[:len(st)-1]
	}
}

func (g *gAgent) noteEvent(e stun.Event) {
	g.hmu.Lock()
	defer g.hmu.Unlock()
	st := g.active[goid()]
	if len(st) == 0 {
		return
	}
	c := st[len(st)-1]
	kind := agKind(e, e.Message)
	c.Evs = append(c.Evs, agEvent{H: 1, ID: agentID(e.TransactionID), Kind: kind})
}

// history returns the complete prefix of the agent's history: the calls numbered before the first one that has not
// returned (an outer call that is still delivering events has had its effect, so nothing after it can be judged)
func (g *gAgent) history() []*agentCall {
	g.hmu.Lock()
	defer g.hmu.Unlock()
	out := []*agentCall{}
	for _, c := range g.calls { // appended in Seq order
		if !c.done {
			break
		}
		out = append(out, c)
	}
	return out
}

func vunits(t time.Time) int64 { return t.Unix() - 2000000 }

func (g *gAgent) Start(id [stun.TransactionIDSize]byte, d time.Time) error {
	g.c.log(map[string]interface{}{"k": "agstart", "p": g.c.procName(), "id": idIndex(id)})
	g.c.arrive("agent.Start", nil)
	c := g.begin("start", agentID(id), vunits(d), 0, 0)
	err := g.a.Start(id, d)
	g.end(c, err)
	return err
}
func (g *gAgent) Stop(id [stun.TransactionIDSize]byte) error {
	g.c.arrive("agent.Stop", nil)
	c := g.begin("stop", agentID(id), 0, 0, 0)
	err := g.a.Stop(id)
	g.end(c, err)
	return err
}
func (g *gAgent) Process(m *stun.Message) error {
	g.c.arrive("agent.Process", nil)
	c := g.begin("process", agentID(m.TransactionID), 0, 0, 0)
	err := g.a.Process(m)
	g.end(c, err)
	return err
}
func (g *gAgent) Collect(t time.Time) error {
	g.c.arrive("agent.Collect", nil)
	c := g.begin("collect", 0, 0, vunits(t), 0)
	err := g.a.Collect(t)
	g.end(c, err)
	return err
}
func (g *gAgent) Close() error {
	g.c.arrive("agent.Close", nil)
	c := g.begin("close", 0, 0, 0, 0)
	err := g.a.Close()
	g.end(c, err)
	if g.closeErr != nil {
		return g.closeErr
	}
	return err
}
func (g *gAgent) SetHandler(h stun.Handler) error {
	c := g.begin("sethandler", 0, 0, 0, 1)
	err := g.a.SetHandler(func(e stun.Event) {
		g.noteEvent(e)
		kind := evKind(e)
		id := idIndex(e.TransactionID)
		g.c.log(map[string]interface{}{"k": "cb", "p": g.c.procName(), "kind": kind, "id": id, "t": g.c.now()})
		g.c.arrive("cb.enter", map[string]interface{}{"kind": kind, "id": id})
		h(e)
		g.c.log(map[string]interface{}{"k": "cbexit", "p": g.c.procName(), "kind": kind, "id": id})
		g.c.arrive("cb.exit", map[string]interface{}{"kind": kind, "id": id})
	})
	g.end(c, err)
	return err
}

func evKind(e stun.Event) string {
	switch {
	case e.Error == nil && e.Message != nil:
		return "msg"
	case errors.Is(e.Error, stun.ErrTransactionStopped):
		return "stopped"
	case errors.Is(e.Error, stun.ErrTransactionTimeOut):
		return "timeout"
	case errors.Is(e.Error, stun.ErrAgentClosed), errors.Is(e.Error, stun.ErrClientClosed):
		return "closed"
	case errors.Is(e.Error, errInjectedWrite):
		return "writeerr"
	case errors.Is(e.Error, stun.ErrTransactionExists), errors.Is(e.Error, stun.ErrTransactionNotExists):
		return "starterr"
	case e.Error != nil:
		var se stun.StopErr
		if errors.As(e.Error, &se) {
			return "writeerr"
		}
		return "other:" + e.Error.Error()
	}
	return "other"
}

// transaction ids of the replay: index k -> bytes; neighbours differ in one bit
func cliID(k int) (id [stun.TransactionIDSize]byte) {
	id[0] = 0xC1
	id[5] = byte(k)
	id[6] = byte(k >> 8)
	id[11] = 0x7e
	return id
}

func idIndex(id [stun.TransactionIDSize]byte) int {
	k := int(id[5]) | int(id[6])<<8
	if cliID(k) == id {
		return k
	}
	return -1
}

func idOfRaw(raw []byte) int {
	if len(raw) < 20 {
		return -1
	}
	var id [stun.TransactionIDSize]byte
	copy(id[:], raw[8:20])
	return idIndex(id)
}

// goroutineBlocked reports whether some goroutine whose stack contains all `must` substrings is blocked in `wait`.
func goroutineBlocked(must []string, wait string) bool {
	buf := make([]byte, 1<<20)
	n := runtime.Stack(buf, true)
	for _, g := range strings.Split(string(buf[:n]), "\n\n") {
		ok := strings.Contains(g, wait)
		for _, m := range must {
			ok = ok && strings.Contains(g, m)
		}
		if ok {
			return true
		}
	}
	return false
}

// libGoroutinesOf lists library goroutines that belong to client c (stack frames print the receiver pointer),
// so that goroutines of earlier, already abandoned clients in the same process are not mistaken for them.
func libGoroutinesOf(c *stun.Client) []string {
	buf := make([]byte, 1<<20)
	n := runtime.Stack(buf, true)
	out := []string{}
	ptr := fmt.Sprintf("(%p", c)
	for _, g := range strings.Split(string(buf[:n]), "\n\n") {
		if strings.Contains(g, "(*Client).readUntilClosed"+ptr) {
			out = append(out, "reader")
		}
		if strings.Contains(g, "(*tickerCollector).Start") {
			out = append(out, "collector")
		}
	}
	return out
}

func respMessage(id [stun.TransactionIDSize]byte, extra int) []byte {
	m := new(stun.Message)
	m.TransactionID = id
	m.Type = stun.BindingSuccess
	m.WriteHeader()
	if extra >= 0 {
		m.Add(stun.AttrSoftware, bytes.Repeat([]byte{byte(0x40 + extra%50)}, extra))
	}
	return append([]byte(nil), m.Raw...)
}

func fmtErr(err error) string {
	switch {
	case err == nil:
		return "nil"
	case errors.Is(err, stun.ErrClientClosed):
		return "closed"
	}
	var ce stun.CloseErr
	if errors.As(err, &ce) {
		return "closeerr"
	}
	return fmt.Sprintf("other:%v", err)
}
