----------------------------- MODULE UriTrace17 -----------------------------
(***************************************************************************)
(* Trace validation for C17 against UriRef.                                *)
(*  uri      {s,h,p,q (components), in, o}   ParseURI on an assembled URI  *)
(*  mut      {in, o}                         a mutation (field constraints)*)
(*  dial     {scheme, proto, host, port, addr, err, calls, first, sni}     *)
(*  dialpair {a, b}    two secure URIs dialled with one DialConfig         *)
(***************************************************************************)
EXTENDS TraceBase, UriRef

VARIABLE l

Out(o) == [scheme |-> o.scheme, host |-> o.host, port |-> o.port, proto |-> o.proto]

UriLine(n, e) ==
  LET cls == Classify(e.s, e.h, e.p, e.q)
      o == e.o
  IN /\ Require(e.in = Assemble(e.s, e.h, e.p, e.q), n, "trace-format", "input is not the assembly of its components")
     /\ Require(o.out \in {"ok", "err"}, n, "did-not-return", [input |-> e.in])
     /\ (o.out = "ok") =>
           /\ Require(FieldsOK(Out(o)), n, "accepted-uri-violates-field-constraints",
                      [input |-> e.in, scheme |-> o.scheme, host |-> o.host, port |-> o.port, proto |-> o.proto])
           /\ Require(o.back = "same", n, "round-trip", [input |-> e.in, formatted |-> o.str, reparse |-> o.back])
     /\ (cls = "accept") =>
           /\ Require(o.out = "ok", n, "valid-uri-rejected", [input |-> e.in])
           /\ (o.out = "ok") => Require(Out(o) = Expected(e.s, e.h, e.p, e.q), n, "wrong-fields",
                                        [input |-> e.in, got |-> Out(o), want |-> Expected(e.s, e.h, e.p, e.q)])
     /\ (cls = "reject") => Require(o.out = "err", n, "invalid-uri-accepted",
                                    [input |-> e.in, port_class |-> e.p.class, query_class |-> e.q.class, scheme |-> e.s])

MutLine(n, e) ==
  /\ Require(e.o.out \in {"ok", "err"}, n, "did-not-return", [input |-> e.in])
  /\ (e.o.out = "ok") =>
        /\ Require(FieldsOK(Out(e.o)), n, "accepted-uri-violates-field-constraints", [input |-> e.in, port |-> e.o.port])
        /\ Require(e.o.back = "same", n, "round-trip", [input |-> e.in, formatted |-> e.o.str])

IsIPLiteral(h) == h = "127.0.0.1"

DialLine(n, e) ==
  LET plan == DialPlan(e.scheme, e.proto)
      secure == e.scheme \in {"stuns", "turns"}
      \* exactly one dial, of the right kind, to the URI's host and port (DialUDP receives the resolved address,
      \* so only its port - and the address itself for IP literals - can be compared)
      one(fnname, netw) == /\ Len(e.calls) = 1 /\ e.calls[1].fn = fnname /\ e.calls[1].net = netw
                           /\ e.calls[1].port = e.portstr
                           /\ (fnname = "Dial" \/ IsIPLiteral(e.host)) => e.calls[1].addr = e.addr
  IN /\ Require(~(secure /\ e.first = "stun"), n, "secure-scheme-dialled-in-plaintext", [scheme |-> e.scheme, proto |-> e.proto])
     /\ CASE plan = "udp" -> Require(e.err = "nil" /\ one("Dial", "udp") /\ e.first = "stun", n, "dial-plan",
                                     [want |-> plan, scheme |-> e.scheme, proto |-> e.proto, calls |-> e.calls, first |-> e.first, err |-> e.err])
          [] plan = "tcp" -> Require(e.err = "nil" /\ one("Dial", "tcp") /\ e.first = "stun", n, "dial-plan",
                                     [want |-> plan, scheme |-> e.scheme, proto |-> e.proto, calls |-> e.calls, first |-> e.first, err |-> e.err])
          [] plan = "tls" -> Require(e.err = "nil" /\ one("Dial", "tcp") /\ e.first = "tls"
                                     /\ (IsIPLiteral(e.host) \/ e.sni = e.host), n, "dial-plan",
                                     [want |-> plan, scheme |-> e.scheme, proto |-> e.proto, calls |-> e.calls, first |-> e.first, sni |-> e.sni, err |-> e.err])
          [] plan = "dtls" -> Require(e.err = "nil" /\ one("DialUDP", "udp") /\ e.first = "dtls"
                                      /\ (IsIPLiteral(e.host) \/ e.sni = e.host), n, "dial-plan",
                                      [want |-> plan, scheme |-> e.scheme, proto |-> e.proto, calls |-> e.calls, first |-> e.first, sni |-> e.sni, err |-> e.err])
          [] plan = "unsupported" -> Require(e.err = "unsupported" /\ e.first # "stun", n, "dial-plan",
                                             [want |-> plan, scheme |-> e.scheme, proto |-> e.proto, err |-> e.err, first |-> e.first])
          [] OTHER -> TRUE

PairLine(n, e) ==
  /\ Require(~e.a.dialerr /\ e.a.hs.ok /\ e.a.hs.sni = e.a.host, n, "connection-not-authenticated-against-its-own-host",
             [uri |-> e.a.uri, sni |-> e.a.hs.sni, handshake_ok |-> e.a.hs.ok])
  /\ Require(~e.b.dialerr /\ e.b.hs.ok /\ e.b.hs.sni = e.b.host, n, "connection-not-authenticated-against-its-own-host",
             [uri |-> e.b.uri, sni |-> e.b.hs.sni, handshake_ok |-> e.b.hs.ok])

Init == RegInit /\ l = 1
Next == /\ l <= NLines
        /\ LET e == Trace[l] IN
           CASE e.k = "uri" -> UriLine(l, e)
             [] e.k = "mut" -> MutLine(l, e)
             [] e.k = "dial" -> DialLine(l, e)
             [] e.k = "dialpair" -> PairLine(l, e)
             [] OTHER -> Reject(l, "unknown-line", e.k)
        /\ Consumed(l)
        /\ l' = l + 1
Spec == Init /\ [][Next]_l
=============================================================================
