"""Shared GEN/DRIVE/VALIDATE for C04 (MESSAGE-INTEGRITY) and C05 (FINGERPRINT)."""
import json
import random
import vlib


def shapes_from(out):
    vs = []
    for ln in out.splitlines():
        if ln.startswith('"VEC '):
            vs.append(json.loads(json.loads(ln)[4:]))
    return vs


def run(ctx, mode):
    rin = ctx.replay_input()
    env = {"VERIF_MODE": mode}
    nshapes = 0
    if rin is not None:
        rl = ctx.path("replay_lines.ndjson")
        with open(rl, "w") as fh:
            fh.write(json.dumps(rin) + "\n")
        env["VERIF_REPLAY_LINES"] = rl
    else:
        # the reference layer itself against the RFC 5769 test vectors (independent of the library)
        ctx.tlc_model("Rfc5769", "Rfc5769.cfg", workers=1, heap_gb=2, name="StunAuth/HMAC/MD5/CRC-32 reference vs RFC 5769 vectors")
        cfg = "AuthGen_quick.cfg" if ctx.quick() else "AuthGen_thorough.cfg"
        r = ctx.tlc_model("AuthGen", cfg, workers=vlib.NCPU, heap_gb=8, timeout=2400,
                          name="MAC/fingerprint shapes with StunAuth theorems (real HMAC-SHA1/CRC-32 in TLA+)")
        if mode == "C04":
            shapes = shapes_from(r["out"])
            if not shapes:
                raise vlib.Inconclusive("no shapes exported")
            rnd = random.Random(ctx.seed)
            nsel = 1500 if ctx.quick() else 20000
            if len(shapes) > nsel:
                shapes = rnd.sample(shapes, nsel)
            vec = ctx.path("auth_vectors.ndjson")
            with open(vec, "w") as fh:
                for s in shapes:
                    fh.write(json.dumps(s) + "\n")
            nshapes = len(shapes)
            env["VERIF_VECTORS"] = vec
            env.update({"VERIF_N_SWEEP": 4 if ctx.quick() else 40, "VERIF_N_LTKEY": 30 if ctx.quick() else 300,
                        "VERIF_N_REFUSE": 20 if ctx.quick() else 200, "VERIF_N_LENSWEEP": 4 if ctx.quick() else 8})
        else:
            env.update({"VERIF_N_FP": 12 if ctx.quick() else 120, "VERIF_N_BURST": 40 if ctx.quick() else 200,
                        "VERIF_N_FPANY": 400 if ctx.quick() else 6000, "VERIF_N_LENSWEEP": 4 if ctx.quick() else 16,
                        "VERIF_LENSWEEP_ALL": 0 if ctx.quick() else 1})
    tagsets = [("verif",)] if ctx.quick() or rin is not None else [("verif",), ("verif", "debug")]
    total = 0
    for tags in tagsets:
        h = ctx.harness("stun", tags=tags)
        trace = ctx.path("auth_%s_%s.ndjson" % (mode, "_".join(tags)))
        ctx.drive(h, "TestVerifAuth", env=dict(env, VERIF_TRACE_OUT=trace), timeout=900)
        files = ctx.shard(trace, vlib.NCPU * 2)
        ctx.validate("AuthTrace", files, heap_gb=3, timeout=2400)
        ctx.add_samples(trace, 3, maxlen=700)
        total += sum(1 for _ in open(trace))

    def input_of(rj):
        return rj["trace_line"]
    ctx.input_of = input_of
    ctx.extra.update({"shapes_driven": nshapes, "trace_lines": total, "build_tags": ["+".join(t) for t in tagsets]})
    ctx.assumptions += ["SHA1/MD5/HMAC/CRC32 TLA+ modules are faithful transcriptions (validated against RFC 2202/FIPS vectors by spec/selftest/hash_selftest.py)",
                        "StunAuth reads RFC 5389 s15.4/s15.5 as the property text does (first attribute of the type; CRC over everything before the last 8 raw bytes)"]
    if mode == "C04":
        rule = ("TLC-enumerated shapes (attributes before/after the MAC x 10 MAC variants x tails {none, second MI, FINGERPRINT} x 7 key classes), "
                "each checked under the signing key, a random key and a one-bit-different key; exhaustive single-bit sweeps of signed messages; long-term keys; refusal after FINGERPRINT; "
                "body lengths on both sides of every multiple of 256 (header-length carry), signed and checked with and without attributes after the MAC")
    else:
        rule = ("fingerprinted messages (with/without MESSAGE-INTEGRITY), every single-bit flip of each (exhaustive per message), random bursts <= 32 bits, "
                "arbitrary decodable messages with FINGERPRINT attributes of any length/position and trailing bytes; body lengths on both sides of every multiple of 256 "
                "(header-length carry; every multiple of 4 up to 4112 in the thorough tier), library-written and reference-written fingerprints")
    return vlib.finish(ctx, traces_validated=total, rule=rule)
